"""
Writer / reader rules for the SM and SSC (de)serializers (properties C01-C04).
"""
from __future__ import annotations

import ast
from typing import Any, Dict, List, Optional, Sequence, Tuple

from ..engine import AnalysisError, ClassInfo, External, FunctionInfo, body_walk, norm, src, walk_no_nested
from ..facts import value_is_optional
from ..flow import cfg_node_of, inline, locals_of, same
from ..report import Ctx
from .common import (calls, calls_named, callee_name, ev, fact_eq_const, fact_in_table, fact_is_none, facts, for_loops, in_body,
                     is_method_call_on, loop_must_pass, method_calls, name_bindings_values, one, parent, parents, require,
                     self_attr, string_parts, try_ev, unparse_facts)

MSDPARAM = "msdparser.parameter.MSDParameter"
SPEC_SM_FIELDS = ("STEPSTYPE", "DESCRIPTION", "DIFFICULTY", "METER", "RADARVALUES", "NOTES")
SPEC_MULTI = ("ATTACKS", "DISPLAYBPM")

BASE_SERIALIZE = "simfile.base:BaseSimfile.serialize"
CHARTS_SERIALIZE = "simfile.base:BaseCharts.serialize"
SMCHART_SERIALIZE = "simfile.sm:SMChart.serialize"
SSCCHART_SERIALIZE = "simfile.ssc:SSCChart.serialize"
PARSERS = {
    "sm_simfile": "simfile.sm:SMSimfile._parse",
    "sm_chart": "simfile.sm:SMChart._parse",
    "ssc_simfile": "simfile.ssc:SSCSimfile._parse",
    "ssc_chart": "simfile.ssc:SSCChart._parse",
}
FROM_MSD = "simfile.sm:SMChart._from_msd"


def is_msdparam(ctx: Ctx, fi: FunctionInfo, call: ast.Call) -> bool:
    n = callee_name(ctx, fi, call)
    return n in ("msdparser.MSDParameter", MSDPARAM)


def multi_table(ctx: Ctx) -> Tuple[str, ...]:
    t = ctx.p.class_const("simfile.base.BaseSimfile", "MULTI_VALUE_PROPERTIES")
    return tuple(t)


def param_elts(fi: FunctionInfo, call: ast.Call) -> List[ast.expr]:
    if len(call.args) != 1 or call.keywords:
        raise AnalysisError(f"MSDParameter call with unexpected arguments in {fi.fq}: {src(call)}")
    arg = inline(call.args[0], fi)
    if not isinstance(arg, (ast.Tuple, ast.List)):
        raise AnalysisError(f"MSDParameter components are not a literal sequence in {fi.fq}: {src(call)}")
    return list(arg.elts)


def items_loops(fi: FunctionInfo) -> List[ast.For]:
    out = []
    for lp in for_loops(fi):
        it = lp.iter
        if (isinstance(it, ast.Call) and isinstance(it.func, ast.Attribute) and it.func.attr == "items" and not it.args
                and isinstance(it.func.value, ast.Name) and it.func.value.id == "self"
                and isinstance(lp.target, ast.Tuple) and len(lp.target.elts) == 2
                and all(isinstance(e, ast.Name) for e in lp.target.elts)):
            out.append(lp)
    return out


# ---------------------------------------------------------------------------
# writers


def table_spec(ctx: Ctx, fmt: str = "both") -> None:
    """The repo's tables equal the tables of the property statement."""
    p = ctx.p
    if fmt in ("sm", "both"):
        sm = tuple(p.const("simfile.sm", "SM_CHART_PROPERTIES"))
        ctx.expect("R-TABLE", ("simfile.sm", ""), "SM_CHART_PROPERTIES == documented field order", sm == SPEC_SM_FIELDS,
                   f"{sm}", f"table is {sm}, documented order is {SPEC_SM_FIELDS}")
    mv = multi_table(ctx)
    ctx.expect("R-TABLE", ("simfile.base", "BaseSimfile"), "MULTI_VALUE_PROPERTIES == {ATTACKS, DISPLAYBPM}",
               set(mv) == set(SPEC_MULTI) and len(mv) == len(set(mv)), f"{mv}", f"table is {mv}, documented set is {SPEC_MULTI}")


def smchart_writer_fields(ctx: Ctx) -> None:
    """C01.1/2: SMChart.serialize writes NOTES + the six fields in table order + extradata; decorations are blank."""
    p = ctx.p
    fi = p.func(SMCHART_SERIALIZE)
    ci = p.cls("simfile.sm.SMChart")
    desc = p.descriptors(ci)
    table = tuple(p.const("simfile.sm", "SM_CHART_PROPERTIES"))
    pcalls = [c for c in calls(fi) if is_msdparam(ctx, fi, c)]
    call = one(pcalls, f"MSDParameter construction in {fi.fq}")
    # the components as they reach MSDParameter on the (single) path: temporaries resolved, comprehensions over constant names unrolled, displays spliced
    from ..peff import _Fold
    from .tables import closed as _closed, sums_of as _tsums
    forms = {}
    for s_ in _tsums(ctx, fi):
        for i_, e_ in enumerate(s_.effects):
            for x_ in (e_.value, e_.target):
                if isinstance(x_, ast.AST):
                    for c_ in ast.walk(x_):
                        if isinstance(c_, ast.Call) and isinstance(c_.func, ast.Name) and c_.func.id == "MSDParameter" and len(c_.args) == 1:
                            v_ = _Fold(lambda e: None, set()).visit(_closed(s_, c_.args[0], i_))
                            forms[ast.unparse(v_)] = v_
    if len(forms) == 1 and isinstance(next(iter(forms.values())), (ast.Tuple, ast.List)):
        elts = list(next(iter(forms.values())).elts)
    else:
        elts = param_elts(fi, call)
    require(len(elts) >= 2, f"{fi.fq}: MSDParameter has no components")
    first = elts[0]
    ctx.expect("R-TABLE", fi, "param[0] == 'NOTES'", isinstance(first, ast.Constant) and first.value == "NOTES",
               "key is the literal NOTES", f"first component is {src(first)}", node=call)
    keys: List[str] = []
    stars: List[ast.expr] = []
    sn = fi.param_names()[0]
    for i, e in enumerate(elts[1:], start=1):
        if isinstance(e, ast.Starred):
            stars.append(e.value)
            if i != len(elts) - 1:
                ctx.bad("R-TABLE", fi, "written field order == SM_CHART_PROPERTIES", f"a variable number of components ({src(e, 60)}) is written before the note data: the six fields are not "
                        f"written one by one in the documented order {list(table)} (the reader zips the components with that table)", node=call)
                return
            continue
        require(not stars, f"{fi.fq}: field after the starred extras")
        parts = string_parts(e)
        if parts is None:
            raise AnalysisError(f"{fi.fq}: component {i} has an unrecognised shape: {src(e)}")
        exprs = [x for k, x in parts if k == "expr"]
        fmts = [x for k, x in parts if k == "fmt"]
        lits = "".join(x for k, x in parts if k == "lit")
        if fmts or len(exprs) != 1:
            raise AnalysisError(f"{fi.fq}: component {i} does not interpolate exactly one plain expression: {src(e)}")
        x = exprs[0]
        key = None
        a = self_attr(x, sn)
        if a is not None and a in desc:
            key = desc[a].key
        elif isinstance(x, ast.Subscript) and isinstance(x.value, ast.Name) and x.value.id == sn:
            key = try_ev(ctx, fi, x.slice)
        if not isinstance(key, str):
            # a field that is transformed on its way out (x.splitlines(), x.strip(), x.replace(..) ...) is not the field's own text any more
            inner = [a for n in ast.walk(x) for a in [self_attr(n, sn)] if a is not None and a in desc]
            if isinstance(x, (ast.Call, ast.BinOp, ast.Subscript)) and inner:
                ctx.bad("R-TABLE", fi, f"component {i} is the chart field itself", f"component {i} is {src(x, 80)}: the field {desc[inner[0]].key} is rewritten while it is serialized "
                        "(line breaks, blanks or other characters of the stored value change), so the text no longer loads back to the same value", node=call)
                keys.append(desc[inner[0]].key)
                continue
            raise AnalysisError(f"{fi.fq}: component {i} is not a chart field: {src(x)}")
        keys.append(key)
        ctx.expect("R-WS", fi, f"decoration of field {key} is whitespace", lits.strip() == "",
                   repr(lits), f"constant text {lits!r} around {key} would not survive the reader's strip()", node=call)
    ctx.expect("R-TABLE", fi, "written field order == SM_CHART_PROPERTIES", tuple(keys) == table,
               f"{keys}", f"writer emits {keys}, reader zips {list(table)}", node=call)
    # extras
    if len(stars) != 1:
        ctx.bad("R-TABLE", fi, "extradata appended after the six fields", f"{len(stars)} starred component(s)", node=call)
    else:
        s = stars[0]
        names = {self_attr(n, sn) for n in ast.walk(s)} - {None}
        okx = names == {"extradata"}
        # accepted: self.extradata or [] / () ; list(self.extradata or ...)
        if isinstance(s, ast.BoolOp) and isinstance(s.op, ast.Or):
            okx = okx and self_attr(s.values[0], sn) == "extradata" and all(
                isinstance(v, (ast.List, ast.Tuple)) and not v.elts for v in s.values[1:])
        elif self_attr(s, sn) == "extradata":
            # *self.extradata raises TypeError when extradata is None (the class default)
            okx = False
        else:
            raise AnalysisError(f"{fi.fq}: extras expression has an unrecognised shape: {src(s)}")
        ctx.expect("R-TABLE", fi, "extradata appended after the six fields", okx, src(s),
                   f"extras expression {src(s)} is not 'self.extradata or []'", node=call)
    # the parameter is written on every path
    cfg = ctx.cfg(fi)
    fparam = fi.param_names()[1] if len(fi.param_names()) > 1 else "file"
    wnodes = []
    for w in method_calls(fi, "write"):
        if isinstance(w.func.value, ast.Name) and w.func.value.id == fparam and len(w.args) == 1:
            arg = inline(w.args[0], fi)
            if any(n is not None and isinstance(n, ast.Call) and norm(n) == norm(inline(call, fi)) for n in ast.walk(arg)):
                wnodes.append(cfg_node_of(cfg, fi, w))
    bad = cfg.must_pass(wnodes) if wnodes else [cfg.entry, cfg.exit]
    ctx.expect("R-ORDER", fi, "the NOTES parameter is written on every path", bad is None, f"{len(wnodes)} write(s)",
               "a path reaches the end of serialize without writing the parameter", node=call)


def walk_body(loop: ast.AST):
    for st in loop.body:
        yield from walk_no_nested(st)


FORMAT_WRITERS = {"sm": (BASE_SERIALIZE, CHARTS_SERIALIZE, SMCHART_SERIALIZE), "ssc": (BASE_SERIALIZE, CHARTS_SERIALIZE, SSCCHART_SERIALIZE),
                  "both": (BASE_SERIALIZE, CHARTS_SERIALIZE, SMCHART_SERIALIZE, SSCCHART_SERIALIZE)}
FORMAT_READERS = {"sm": ("sm_simfile", "sm_chart"), "ssc": ("ssc_simfile", "ssc_chart"), "both": ("sm_simfile", "sm_chart", "ssc_simfile", "ssc_chart")}


def serializer_raw_text(ctx: Ctx, fmt: str = "both") -> None:
    """R-WS: every write in a serializer is an MSD parameter plus whitespace - nothing a strict parser calls stray text."""
    p = ctx.p
    n = 0
    for fq in FORMAT_WRITERS[fmt]:
        fi = p.func(fq)
        fparam = fi.param_names()[1] if len(fi.param_names()) > 1 else None
        require(fparam is not None, f"{fq} has no file parameter")
        pcalls = [c for c in calls(fi) if is_msdparam(ctx, fi, c)]
        pnames = set()
        for c in pcalls:
            par = parent(fi, c)
            if isinstance(par, ast.Assign) and len(par.targets) == 1 and isinstance(par.targets[0], ast.Name):
                pnames.add(par.targets[0].id)
        for nm in list(pnames):
            vals = name_bindings_values(fi, nm)
            if not all(v is not None and isinstance(v, ast.Call) and v in pcalls for v in vals):
                pnames.discard(nm)
        for w in method_calls(fi, "write"):
            if not (isinstance(w.func.value, ast.Name) and w.func.value.id == fparam):
                continue
            n += 1
            parts = string_parts(inline(w.args[0], fi, stop=pnames)) if len(w.args) == 1 else None
            if parts is None:
                raise AnalysisError(f"{fq}: write argument has an unrecognised shape: {src(w)}")
            pcall_norms = {norm(inline(c, fi)) for c in pcalls}
            parts = [(k, x) if not (k == "expr" and isinstance(x, ast.Call) and norm(x) in pcall_norms) else ("param", x) for k, x in parts]
            lit = "".join(x for k, x in parts if k == "lit")
            others = [x for k, x in parts if k not in ("lit", "param")]
            good = lit.strip() == "" and all(
                (isinstance(x, ast.Name) and x.id in pnames) or (isinstance(x, ast.Call) and x in pcalls) for x in others)
            ctx.expect("R-WS", fi, f"write({src(w.args[0], 40)}) is parameters + whitespace", good, repr(lit),
                       f"writes {src(w.args[0])}: text outside an MSD parameter (stray text for the strict parser) or unescaped data", node=w)
    ctx.floor("serializer writes", n, 3)


def layout(ctx: Ctx) -> None:
    """C01.5: properties, blank line, charts - in that order; charts in list order."""
    p = ctx.p
    fi = p.func(BASE_SERIALIZE)
    cfg = ctx.cfg(fi)
    loop = one(items_loops(fi), f"item loop in {BASE_SERIALIZE}")
    sn = fi.param_names()[0]
    fparam = fi.param_names()[1]
    lnode = cfg.node_for(loop)
    chart_calls = [c for c in method_calls(fi, "serialize")
                   if isinstance(c.func.value, ast.Attribute) and self_attr(c.func.value, sn) == "charts"
                   and len(c.args) == 1 and isinstance(c.args[0], ast.Name) and c.args[0].id == fparam]
    cc = one(chart_calls, f"self.charts.serialize(file) in {BASE_SERIALIZE}")
    cnode = cfg_node_of(cfg, fi, cc)
    ctx.expect("R-ORDER", fi, "charts are serialized after the properties on every path",
               cfg.dominates(lnode, cnode) and not in_body(loop, cc) and cfg.must_pass([cnode]) is None,
               "", "self.charts.serialize(file) is not reached after the property loop on every path", node=cc)
    seps = [w for w in method_calls(fi, "write") if not in_body(loop, w) and isinstance(w.func.value, ast.Name)
            and w.func.value.id == fparam and len(w.args) == 1 and isinstance(w.args[0], ast.Constant)]
    good = False
    for w in seps:
        wn = cfg_node_of(cfg, fi, w)
        if cfg.dominates(lnode, wn) and cfg.dominates(wn, cnode) and str(w.args[0].value).strip() == "" and "\n" in str(w.args[0].value):
            good = True
    ctx.expect("R-ORDER", fi, "blank line between properties and charts", good, "", "no blank-line write between the property loop and the charts", node=loop)
    # BaseCharts.serialize
    fc = p.func(CHARTS_SERIALIZE)
    ccfg = ctx.cfg(fc)
    snc = fc.param_names()[0]
    cand = [lp for lp in for_loops(fc) if any(isinstance(n, ast.Name) and n.id == snc for n in ast.walk(lp.iter)) and isinstance(lp.target, ast.Name)]
    lp = one(cand, f"loop over the charts in {CHARTS_SERIALIZE}")
    ctx.expect("R-ORDER", fc, "the charts are walked in list order", isinstance(lp.iter, ast.Name), src(lp.iter), f"the loop iterates {src(lp.iter)}, not the list itself: chart order would change", node=lp)
    sc = [c for c in method_calls(fc, "serialize") if isinstance(c.func.value, ast.Name) and c.func.value.id == lp.target.id and in_body(lp, c)]
    bad = loop_must_pass(ccfg, lp, [cfg_node_of(ccfg, fc, c) for c in sc]) if sc else [0]
    skips = [n for n in walk_body(lp) if isinstance(n, (ast.Continue, ast.Break, ast.Return))]
    ctx.expect("R-ORDER", fc, "every chart is serialized, in list order", bad is None and not skips,
               "for chart in self: chart.serialize(file)", "a chart can be skipped or the list is not walked in order", node=lp)
    ctx.expect("R-ORDER", fc, "the chart loop is unconditional", ccfg.must_pass([ccfg.node_for(lp)]) is None, "", "the loop over the charts is not reached on every path", node=lp)


# ---------------------------------------------------------------------------
# SSC chart writer: notes item last, recognised by key


# ---------------------------------------------------------------------------
# readers


def _param_vars(ctx: Ctx, fi: FunctionInfo) -> List[str]:
    """Locals holding an MSDParameter: loop targets over the parser and next(parser) results."""
    out = set()
    loc = locals_of(fi)
    pnames = set(fi.param_names()[1:2])  # the parser argument
    # aliases: iterator = iter(parser)
    for name, bs in loc.b.items():
        for b in bs:
            if b.kind == "assign" and isinstance(b.value, ast.Call) and isinstance(b.value.func, ast.Name) and b.value.func.id == "iter" \
                    and b.value.args and isinstance(b.value.args[0], ast.Name) and b.value.args[0].id in pnames:
                pnames.add(name)
    for name, bs in loc.b.items():
        for b in bs:
            if b.kind == "for" and isinstance(b.value, ast.Name) and b.value.id in pnames:
                out.add(name)
            if b.kind == "assign" and isinstance(b.value, ast.Call) and isinstance(b.value.func, ast.Name) and b.value.func.id == "next" \
                    and b.value.args and isinstance(b.value.args[0], ast.Name) and b.value.args[0].id in pnames:
                out.add(name)
    return sorted(out)


def reader_keynorm(ctx: Ctx, fmt: str = "both") -> None:
    """R-KEYNORM: a raw param.key never escapes - every read is the receiver of .upper()."""
    p = ctx.p
    total = 0
    for label, fq in PARSERS.items():
        if label not in FORMAT_READERS[fmt]:
            continue
        fi = p.func(fq)
        pv = _param_vars(ctx, fi)
        require(pv, f"{fq}: no MSDParameter variable recognised")
        n = 0
        for node in body_walk(fi.node):
            if isinstance(node, ast.Attribute) and node.attr == "key" and isinstance(node.value, ast.Name) and node.value.id in pv:
                n += 1
                up = is_method_call_on(node, fi, "upper")
                ctx.expect("R-KEYNORM", fi, f"{src(node)} read #{n} is upper-cased", up is not None and not up.args,
                           "", f"raw {src(node)} is used without .upper(): lower-case keys are stored/tested as written", node=node)
        ctx.floor(f"{fi.qualname} key reads", n, 1)
        total += n
    ctx.floor("key reads in the readers", total, 4 if fmt == "both" else 2)


def _is_components_tail(e: ast.expr, pv: Sequence[str]) -> bool:
    return (isinstance(e, ast.Subscript) and isinstance(e.value, ast.Attribute) and e.value.attr == "components"
            and isinstance(e.value.value, ast.Name) and e.value.value.id in pv and isinstance(e.slice, ast.Slice)
            and isinstance(e.slice.lower, ast.Constant) and e.slice.lower.value == 1 and e.slice.upper is None and e.slice.step is None)


_RAW_KEY_OK = [False]


class OneOfText(str):
    """A text with accepted alternative spellings (compares equal to any of them)."""

    def __new__(cls, *alts):
        o = str.__new__(cls, alts[0])
        o.alts = tuple(alts)
        return o

    def __eq__(self, other):
        return other in self.alts

    def __ne__(self, other):
        return other not in self.alts

    __hash__ = str.__hash__


def sm_chart_reader(ctx: Ctx) -> None:
    """C01.1 reader side / C03.3 / C04: fewer than six components -> ValueError before anything is stored; the six fields are stored stripped under
    their table keys; further components become extradata; nothing else is stored."""
    p = ctx.p
    fi = p.func(FROM_MSD)
    table = tuple(p.const("simfile.sm", "SM_CHART_PROPERTIES"))
    n = len(table)
    vparam = fi.param_names()[1]
    sn = fi.param_names()[0]
    from .tables import Dec, judge as tjudge, sums_of as tsums, touches
    sums = tsums(ctx, fi)
    loops = {(ast.unparse(e.target), e.line) for s_ in sums for e in s_.effects if e.kind == "for" and ast.unparse(e.value) == f"zip({table!r}, {vparam})"}
    allloops = {e.line for s_ in sums for e in s_.effects if e.kind == "for"}
    ctx.expect("R-TABLE", fi, "the components are zipped with SM_CHART_PROPERTIES in table order", len(loops) == 1 and len(allloops) == 1, str(sorted(loops)), f"loops: {sorted(loops)} of {len(allloops)}", node=fi.node)
    if not (len(loops) == 1 and len(allloops) == 1):
        return
    tgt, line = next(iter(loops))
    tt = ast.parse(tgt, mode="eval").body
    require(isinstance(tt, ast.Tuple) and len(tt.elts) == 2 and all(isinstance(e, ast.Name) for e in tt.elts), f"{FROM_MSD}: zip loop target has an unrecognised shape")
    kn, vn = tt.elts[0].id, tt.elts[1].id
    LT, GT = f"len({vparam}) < {n}", f"len({vparam}) > {n}"
    decs = []
    for s_ in sums:
        if s_.end != "raise" and not any(e.kind == "for" for e in s_.effects):
            continue  # zero fields zipped: impossible once the length guard has passed
        eff = []
        for e in s_.effects:
            if e.kind == "raise":
                ex = e.value.func if isinstance(e.value, ast.Call) else e.value
                eff.append("raise " + (ast.unparse(ex) if ex is not None else ""))
            elif e.kind in ("store", "aug", "delete", "expr") and touches(e, [sn]):
                eff.append(e.text)
        decs.append(Dec(dict(s_.plain_assign()), tuple(eff), s_))

    def spec(a):
        if a[LT]:
            return ("raise ValueError",)
        out = (f"{sn}[{kn}] = {vn}.strip()",)
        if a[GT]:
            return out + (OneOfText(f"{sn}.extradata = list({vparam}[{n}:])", f"{sn}.extradata = {vparam}[{n}:]"),)
        return out

    eqv = {f"len({vparam}) >= {n + 1}": (GT, True), f"len({vparam}) <= {n - 1}": (LT, True), f"{vparam}[{n}:]": (GT, True)}
    # a local that holds len(<components>) (the sequence is a parameter nobody changes here): tests on it are tests on the length; once the
    # length guard has passed, "!= 6" is "> 6"
    from ..decide import key as _ck
    for s_ in sums:
        for e in s_.effects:
            if e.kind == "bind" and isinstance(e.target, ast.Name) and e.value is not None and ast.unparse(e.value) == f"len({vparam})":
                c = e.target.id
                eqv.update({f"{c} > {n}": (GT, True), f"{c} < {n}": (LT, True), f"{c} >= {n + 1}": (GT, True), f"{c} == {n}": (GT, False), f"{c} != {n}": (GT, True),
                            f"len({vparam}) == {n}": (GT, False), f"len({vparam}) != {n}": (GT, True)})
    tjudge(ctx, "R-WS", fi, "fewer than six components -> ValueError before anything is stored; each of the six fields is stored strip()ped under its table key; "
           "components after the six become extradata; nothing else is stored or changed afterwards", decs, [LT, GT], spec,
           equiv=eqv,
           why="the writer's line-break/indent decoration must not become part of a field, and a loaded field must not be altered beyond that (a second load would alter it again)")
    # _parse: NOTES key check and components[1:]
    fp = p.func(PARSERS["sm_chart"])
    pv = _param_vars(ctx, fp)
    tails = [c for c in calls(fp) if callee_name(ctx, fp, c).endswith("SMChart._from_msd")]
    c = one(tails, f"self._from_msd(...) call in {fp.fq}")
    ctx.expect("R-TABLE", fp, "chart components are everything after the key", len(c.args) == 1 and _is_components_tail(c.args[0], pv), src(c),
               f"{src(c)} does not pass param.components[1:]", node=c)
    # from_str splits on ':' (deprecated entry point, same funnel)
    fs_ = p.func("simfile.sm:SMChart.from_str")
    from .tables import closed_text as _ct, sums_of as _ts
    ssums = _ts(ctx, fs_)
    sp_ = fs_.param_names()[1]
    texts = set()
    for s_ in ssums:
        for e in s_.effects:
            if e.kind == "expr" and isinstance(e.value, ast.Call) and isinstance(e.value.func, ast.Attribute) and e.value.func.attr == "_from_msd":
                texts.add(ast.unparse(e.value.args[0]) if len(e.value.args) == 1 else ast.unparse(e.value))
    ctx.expect("R-TABLE", fs_, "from_str splits its argument on ':' without a limit and hands the pieces to the same funnel (_from_msd)", texts == {f"{sp_}.split(':')"}, str(sorted(texts)),
               f"_from_msd receives {sorted(texts)}", node=fs_.node)


# ---------------------------------------------------------------------------
# R-NULL sweep over every serializer (thorough / C04)


def null_sweep(ctx: Ctx, fmt: str = "both") -> None:
    """No Optional[str] (values of the mapping: param.value may be None) reaches a string sink unguarded in any serialize()."""
    p = ctx.p
    require(value_is_optional(), "msdparser no longer annotates MSDParameter.value as Optional")
    n = 0
    skip = {"sm": ("simfile.ssc",), "ssc": ("simfile.sm",), "both": ()}[fmt]
    for ci in p.subclasses("simfile._private.serializable.Serializable"):
        if ci.module.is_test or ci.module.name in skip:
            continue
        fi = ci.methods.get("serialize")
        if fi is None:
            continue
        sn = fi.param_names()[0]
        nullable: Dict[str, str] = {}
        for lp in items_loops(fi):
            nullable[lp.target.elts[1].id] = "value of self.items()"
        for name, bs in locals_of(fi).b.items():
            for b in bs:
                v = b.value
                if b.kind == "assign" and isinstance(v, ast.Subscript) and isinstance(v.value, ast.Name) and v.value.id == sn:
                    nullable[name] = "self[...] lookup"
                if b.kind == "assign" and isinstance(v, ast.Call) and isinstance(v.func, ast.Attribute) and v.func.attr == "get" \
                        and isinstance(v.func.value, ast.Name) and v.func.value.id == sn:
                    nullable[name] = "self.get(...) lookup"
        for node in body_walk(fi.node):
            sink = None
            if isinstance(node, ast.Name) and isinstance(node.ctx, ast.Load) and node.id in nullable:
                par = parent(fi, node)
                if isinstance(par, ast.Attribute) and par.value is node and isinstance(parent(fi, par), ast.Call) and parent(fi, par).func is par:
                    sink = f"receiver of .{par.attr}()"
                elif isinstance(par, (ast.Tuple, ast.List)) and par.elts and par.elts[0] is not node and (
                        (isinstance(parent(fi, par), ast.Call) and is_msdparam(ctx, fi, parent(fi, par))) or _feeds_msdparam(ctx, fi, par)):
                    sink = "MSDParameter component"
                elif isinstance(par, ast.BinOp) and isinstance(par.op, ast.Add):
                    sink = "operand of +"
                if sink:
                    n += 1
                    fs = facts(ctx, fi, node)
                    ctx.expect("R-NULL", fi, f"{node.id} ({nullable[node.id]}) as {sink}", fact_is_none(fs, node) is False or _truthy(fs, node),
                               unparse_facts(fs), f"{node.id} may be None here (key-only parameter) and reaches a string sink under {unparse_facts(fs)}", node=node)
            if isinstance(node, ast.Subscript) and isinstance(node.ctx, ast.Load) and isinstance(node.value, ast.Name) and node.value.id == sn:
                par = parent(fi, node)
                if isinstance(par, (ast.Tuple, ast.List)) and isinstance(parent(fi, par), ast.Call) and is_msdparam(ctx, fi, parent(fi, par)) \
                        and par.elts and par.elts[0] is not node:
                    n += 1
                    ctx.bad("R-NULL", fi, f"{src(node)} as MSDParameter component", "a mapping lookup (None for a key-only parameter) reaches MSDParameter unguarded", node=node)
    ctx.floor("nullable string sinks in serializers", n, 2 if fmt == "sm" else 3)


def _feeds_msdparam(ctx: Ctx, fi: FunctionInfo, tup: ast.AST) -> bool:
    """The tuple is assigned to a local that is the sole argument of an MSDParameter(...) call."""
    par = parent(fi, tup)
    if isinstance(par, ast.Assign) and len(par.targets) == 1 and isinstance(par.targets[0], ast.Name):
        nm = par.targets[0].id
        return any(is_msdparam(ctx, fi, c) and len(c.args) == 1 and isinstance(c.args[0], ast.Name) and c.args[0].id == nm for c in calls(fi))
    return False


def _truthy(fs, var: ast.expr) -> bool:
    return any(pol and norm(a) == norm(var) for a, pol in fs)


def str_is_serialize(ctx: Ctx) -> None:
    """str(obj) is exactly what serialize() writes (mutate's backup/output text and the 'second save' clause rely on it): on every path a NEW
    StringIO() is created, handed to self.serialize(), and its getvalue() returned - nothing else (no buffer kept between calls, no rewinding,
    no post-processing of the text)."""
    import re as _re
    from .tables import closed, sums_of as tsums
    p = ctx.p
    f = p.func("simfile._private.serializable:Serializable.__str__")
    sn = f.param_names()[0]
    seen = set()
    for s_ in tsums(ctx, f):
        toks = []
        buf = None
        for i, e in enumerate(s_.effects):
            if e.kind == "bind" and isinstance(e.target, ast.Name) and e.value is not None and ast.unparse(e.value) in ("StringIO()", "io.StringIO()") and buf is None:
                buf = e.target.id
                toks.append("BUF := StringIO()")
            elif e.kind == "with" and isinstance(e.target, ast.Call) and ast.unparse(e.target) in ("StringIO()", "io.StringIO()") and isinstance(e.value, ast.Name) and buf is None:
                buf = e.value.id
                toks.append("BUF := StringIO()")
            elif e.kind == "bind" and isinstance(e.target, ast.Name) and not e.opaque:
                continue
            elif e.kind == "return":
                v = closed(s_, e.value, i, keep=[buf] if buf else []) if e.value is not None else None
                toks.append("return " + (ast.unparse(v) if v is not None else "None"))
            else:
                toks.append(e.text)
        conds = sorted(s_.plain_assign())
        fix = (lambda t, b=buf: _re.sub(rf"\b{_re.escape(b)}\b", "BUF", t)) if buf else (lambda t: t)
        seen.add((tuple(fix(t) for t in toks), tuple(conds)))
    want = {(("BUF := StringIO()", f"{sn}.serialize(BUF)", "return BUF.getvalue()"), ())}
    ctx.expect("R-TABLE", f, "str(x) returns exactly the text x.serialize() writes into a fresh buffer", seen == want, f"{len(seen)} path shape(s)",
               f"Serializable.__str__ does {sorted(seen)}: expected a new StringIO(), {sn}.serialize(<it>), return <it>.getvalue() and nothing else - a buffer that outlives the call keeps the tail of "
               "a longer earlier text, a translated or trimmed text is not what serialize() wrote", node=f.node)
