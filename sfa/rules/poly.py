"""
Polynomial normal form of integer arithmetic ASTs (+, -, *, unary minus,
integer constants) over opaque atoms.  Used to compare a computed index/beat
expression with its specification up to algebraic identity.
"""
from __future__ import annotations

import ast
from fractions import Fraction
from typing import Callable, Dict, Optional, Tuple

from ..engine import norm

Mono = Tuple[Tuple[str, int], ...]  # sorted ((atom, power), ...)
Poly = Dict[Mono, Fraction]


def const(c) -> Poly:
    return {(): Fraction(c)} if c != 0 else {}


def atom(name: str) -> Poly:
    return {((name, 1),): Fraction(1)}


def add(a: Poly, b: Poly, sign: int = 1) -> Poly:
    out = dict(a)
    for m, c in b.items():
        out[m] = out.get(m, Fraction(0)) + sign * c
        if out[m] == 0:
            del out[m]
    return out


def mul(a: Poly, b: Poly) -> Poly:
    out: Poly = {}
    for m1, c1 in a.items():
        for m2, c2 in b.items():
            d: Dict[str, int] = {}
            for n, p in m1 + m2:
                d[n] = d.get(n, 0) + p
            m = tuple(sorted(d.items()))
            out[m] = out.get(m, Fraction(0)) + c1 * c2
            if out[m] == 0:
                del out[m]
    return out


def poly(e: ast.expr, subst: Optional[Callable[[ast.expr], Optional[ast.expr]]] = None, depth: int = 10) -> Poly:
    """Normal form of *e*; anything that is not +,-,* or an int constant is an opaque atom named by its dump.
    *subst* may map a sub-expression (typically a Name) to the expression it stands for."""
    if depth <= 0:
        return atom(norm(e))
    if subst is not None:
        r = subst(e)
        if r is not None:
            return poly(r, subst, depth - 1)
    if isinstance(e, ast.Constant) and isinstance(e.value, int) and not isinstance(e.value, bool):
        return const(e.value)
    if isinstance(e, ast.UnaryOp) and isinstance(e.op, ast.USub):
        return mul(const(-1), poly(e.operand, subst, depth))
    if isinstance(e, ast.UnaryOp) and isinstance(e.op, ast.UAdd):
        return poly(e.operand, subst, depth)
    if isinstance(e, ast.BinOp):
        if isinstance(e.op, ast.Add):
            return add(poly(e.left, subst, depth), poly(e.right, subst, depth))
        if isinstance(e.op, ast.Sub):
            return add(poly(e.left, subst, depth), poly(e.right, subst, depth), -1)
        if isinstance(e.op, ast.Mult):
            return mul(poly(e.left, subst, depth), poly(e.right, subst, depth))
    return atom(ast.unparse(e))


def equal(a: Poly, b: Poly) -> bool:
    return add(a, b, -1) == {}


def show(p: Poly) -> str:
    if not p:
        return "0"
    terms = []
    for m, c in sorted(p.items()):
        s = "*".join(n if k == 1 else f"{n}^{k}" for n, k in m)
        terms.append(f"{c}" + (f"*{s}" if s else ""))
    return " + ".join(terms)
