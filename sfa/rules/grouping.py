"""
group_notes on path effects (properties C09, C10).  The private closures of group_notes (flush, maybe_buffer,
flush_until_held_note, join_head_to_tail, attach_tail, add_row) are inlined at load time, so the rules see the
algorithm itself: how it is cut into helpers does not matter.

  joiner(ctx)        per note of the stream: pairing / orphan policies / registration of heads / buffer-or-emit,
                     then the clean-up of unclosed heads and the final flush
  group_level(ctx)   the type filter, joining exactly when asked, grouping by beat, the three same-beat modes
"""
from __future__ import annotations

import ast
import re
from typing import Dict, List, Optional, Tuple

from ..decide import IGNORE, OneOf
from ..engine import AnalysisError, FunctionInfo
from ..report import Ctx
from .common import require
from .tables import Dec, closed_text, judge, sums_of, touches

GROUP = "simfile.notes.group:group_notes"
JOINER = GROUP + ".join_heads_to_tails_"
MEMBERS = ("RAISE_EXCEPTION", "KEEP_ORPHAN", "DROP_ORPHAN")


def _locals_bound_to(ctx: Ctx, g: FunctionInfo, text: str) -> List[str]:
    out = []
    for s_ in sums_of(ctx, g):
        for e in s_.effects:
            if e.kind == "bind" and isinstance(e.target, ast.Name) and e.value is not None and ast.unparse(e.value) == text and e.target.id not in out:
                out.append(e.target.id)
    return out


def _names(ctx: Ctx) -> Tuple[str, str]:
    g = ctx.p.func(GROUP)
    held = _locals_bound_to(ctx, g, "{}") + _locals_bound_to(ctx, g, "dict()")
    buf = _locals_bound_to(ctx, g, "deque()")
    if len(held) > 1:
        # the dict of open heads is the one the joiner pops the note's column from
        j = ctx.p.func(JOINER)
        popped = {c for c in held for s_ in sums_of(ctx, j, limit=200000) for e in s_.effects if e.kind == "bind" and e.value is not None and ast.unparse(e.value).startswith(f"{c}.pop(")}
        held = [c for c in held if c in popped]
    require(len(held) == 1 and len(buf) == 1, f"{GROUP}: the held-columns dict / the deque buffer are not recognised ({held} / {buf})")
    return held[0], buf[0]


def _dedupe(decs: List[Dec]) -> List[Dec]:
    seen = set()
    out = []
    for d in decs:
        k = (tuple(sorted(d.assign.items())), d.outcome)
        if k not in seen:
            seen.add(k)
            out.append(d)
    return out


def joiner(ctx: Ctx) -> None:
    """C09.3-5 / C10.5: what join_heads_to_tails_ does with one note, with the unclosed heads at the end, and the final flush."""
    p = ctx.p
    j = p.func(JOINER)
    held, buf = _names(ctx)
    sums = sums_of(ctx, j, limit=200000)
    stream = j.param_names()[0]
    mains = {(ast.unparse(e.target), e.line) for s_ in sums for e in s_.effects if e.kind == "for" and ast.unparse(e.value) == stream}
    require(len(mains) == 1, f"{JOINER}: expected one loop over the note stream, found {sorted(mains)}")
    n, line = next(iter(mains))
    heads = {e.target.id for s_ in sums for e in s_.effects if e.kind == "bind" and line in e.loops and isinstance(e.target, ast.Name) and e.value is not None
             and ast.unparse(e.value) == f"{held}.pop({n}.column, None)"}
    ctx.expect("R-TABLE", j, "the head paired is the one open in the note's own column (and it is no longer held afterwards)", len(heads) == 1, str(sorted(heads)),
               f"no (or more than one) local bound to {held}.pop({n}.column, None) in the main loop: {sorted(heads)}", node=j.node)
    if len(heads) != 1:
        return
    h = next(iter(heads))
    IN, TL, HD = f"{n}.column in {held}", f"{n}.note_type == NoteType.TAIL", h
    OT = {m: f"orphaned_tail == OrphanedNotes.{m}" for m in MEMBERS}
    OH = {m: f"orphaned_head == OrphanedNotes.{m}" for m in MEMBERS}
    # 'is a hold open?' (held / held.values() / len(held): one condition) and 'is anything buffered?' are asked up to twice per note;
    # the second answer is a new one only if the object was changed in between (occ2)
    H1, H2, W = held, f"occ2({held})", f"{buf}[0] in {held}.values()"
    BF1, BF2 = buf, f"occ2({buf})"
    HT = f"{n}.note_type in (NoteType.HOLD_HEAD, NoteType.ROLL_HEAD)"
    ATTACH = f"{buf}[{buf}.index({h})] = NoteWithTail(beat={h}.beat, column={h}.column, note_type={h}.note_type, tail_beat={n}.beat, player={h}.player, keysound_index={h}.keysound_index)"
    FLUSH = (f"yieldfrom {buf}", f"{buf}.clear()")

    def policy(a, table):
        on = [m for m, k in table.items() if a[k]]
        if len(on) > 1:
            return "conflict"
        return on[0] if on else None

    def spec(a):
        if a[TL] and a[HT]:
            return IGNORE
        out: List[str] = []
        flushed_in_a = False
        asked_held_in_a = False
        if a[IN] or a[TL]:
            if not a[HD]:
                pol = policy(a, OT)
                if pol == "conflict":
                    return IGNORE
                if pol == "RAISE_EXCEPTION":
                    return (f"raise OrphanedNoteException({n})",)
                if pol == "KEEP_ORPHAN":
                    out.append(f"{buf}.append({n})")
            else:
                if not a[TL]:
                    pol = policy(a, OH)
                    if pol == "conflict":
                        return IGNORE
                    if pol == "RAISE_EXCEPTION":
                        return (f"raise OrphanedNoteException({h})",)
                    if pol == "DROP_ORPHAN":
                        out.append(f"{buf}.remove({h})")
                    elif pol is None:
                        return (f"raise ValueError(orphaned_head)",)
                else:
                    out.append(ATTACH)
            asked_held_in_a = True
            if a[H1]:
                if not a[W]:
                    out.append(f"yield {buf}.popleft()")
            else:
                flushed_in_a = True
                if a[BF1]:
                    out.extend(FLUSH)
        if a[HT]:
            out.append(f"{held}[{n}.column] = {n}")
        if not a[TL]:
            hold_open = (a[H2] if a[HT] else a[H1]) if asked_held_in_a else a[H1]
            if hold_open:
                out.append(f"{buf}.append({n})")
            else:
                # the buffer is asked again only if the earlier flush emptied it (clear() changes it); an earlier 'empty' answer still stands
                if a[BF2] if (flushed_in_a and a[BF1]) else a[BF1]:
                    out.extend(FLUSH)
                out.append(f"yield {n}")
        return tuple(out)

    decs = []
    for s_ in sums:
        if not any(e.kind == "for" and e.line == line for e in s_.effects):
            continue
        eff = [e for e in s_.effects if line in e.loops and e.kind in ("store", "aug", "delete", "expr", "yield", "yieldfrom", "raise", "return", "break")
               and (e.kind != "expr" or touches(e, [held, buf]))]
        decs.append(Dec(dict(s_.atoms_in_occ(line)), tuple(closed_text(s_, e, keep=[held, buf, n, h]) for e in eff), s_))
    decs = _dedupe(decs)
    ctx.floor("distinct behaviours of the joiner per note", len(decs), 20)
    atoms = [IN, TL, HD] + list(OT.values()) + list(OH.values()) + [H1, H2, W, BF1, BF2, HT]
    judge(ctx, "R-TABLE", j, "per note: a head is closed or interrupted exactly by a tail or by any note in its (held) column; joined exactly when there is an open head and the closing note is a tail "
          "(the joined note takes the head's slot in the buffer); orphaned tail / head raised about, kept or dropped as the options say; then everything up to the next still-held head is released; "
          "exactly hold and roll heads open a column (after closing the old one); every note but a tail is buffered while a hold is open and emitted directly otherwise", decs, atoms, spec,
          assume={n: True}, why="the documented pairing rules of group_notes")
    # after the stream: every unclosed head is an orphaned head (policy applied), then the buffer is flushed
    cl = {(ast.unparse(e.target), e.line) for s_ in sums for e in s_.effects if e.kind == "for" and e.line != line and ast.unparse(e.value) == f"{held}.values()" and not e.loops}
    ctx.expect("R-ORDER", j, "unclosed heads are resolved after the stream ends", len(cl) == 1, str(sorted(cl)), f"loops over {held}.values() after the main loop: {sorted(cl)}", node=j.node)
    if len(cl) == 1:
        hv, cline = next(iter(cl))
        cdecs = []
        for s_ in sums:
            if not any(e.kind == "for" and e.line == cline for e in s_.effects):
                continue
            eff = [e for e in s_.effects if cline in e.loops and e.kind in ("store", "aug", "delete", "expr", "yield", "yieldfrom", "raise", "return", "break") and (e.kind != "expr" or touches(e, [held, buf]))]
            asg = dict(s_.plain_assign())  # the option tests may have been decided earlier on the path (they do not change)
            asg.update(s_.atoms_in(cline))
            cdecs.append(Dec({k: v for k, v in asg.items() if "orphaned_head" in k or k == hv}, tuple(closed_text(s_, e, keep=[held, buf, hv]) for e in eff), s_))
        OHc = {m: f"orphaned_head == OrphanedNotes.{m}" for m in MEMBERS}

        def cspec(a):
            pol = policy(a, OHc)
            if pol == "conflict":
                return IGNORE
            if pol == "RAISE_EXCEPTION":
                return (f"raise OrphanedNoteException({hv})",)
            if pol == "DROP_ORPHAN":
                return (f"{buf}.remove({hv})",)
            if pol is None:
                return ("raise ValueError(orphaned_head)",)
            return ()

        judge(ctx, "R-TABLE", j, "a head still open at the end of the stream is an orphaned head: raised about, kept, or removed from the buffer as orphaned_head says", _dedupe(cdecs), list(OHc.values()), cspec,
              assume={hv: True})
    # the final flush
    post = []
    for s_ in sums:
        if s_.end == "raise":
            continue
        last_in_loop = max([i for i, e in enumerate(s_.effects) if e.loops or e.kind == "for"] or [-1])
        start = last_in_loop + 1
        eff = [e for e in s_.effects[start:] if not e.loops and e.kind in ("yield", "yieldfrom", "expr", "store") and (e.kind != "expr" or touches(e, [held, buf]))]
        asg = {}
        for k, v in s_.assign.items():
            ls, n_eff = s_.where[k]
            if not ls and n_eff >= start and s_.plain(k) == buf:
                asg[buf] = v
        post.append(Dec(asg, tuple(closed_text(s_, e, keep=[held, buf]) for e in eff), s_))
    judge(ctx, "R-ORDER", j, "the buffer is flushed at the end on every path", _dedupe(post), [buf], lambda a: FLUSH if a[buf] else ())


def group_level(ctx: Ctx, join_guard: bool = True) -> None:
    """C09.3 / C10.5: only the included note types are considered; heads are joined exactly when asked; rows are the notes of one beat, in stream order;
    KEEP_SEPARATE -> one group per note, JOIN_ALL -> the row, JOIN_BY_NOTE_TYPE -> one group per note type in first-appearance order."""
    p = ctx.p
    g = p.func(GROUP)
    sums = sums_of(ctx, g)
    notes = g.param_names()[0]
    FILTER = f"(_c0 for _c0 in {notes} if _c0.note_type in include_note_types)"
    JH = "join_heads_to_tails"
    SB = {m: f"same_beat_notes == SameBeatNotes.{m}" for m in ("KEEP_SEPARATE", "JOIN_ALL", "JOIN_BY_NOTE_TYPE")}
    # the stream that is grouped
    rows = set()
    for s_ in sums:
        for i, e in enumerate(s_.effects):
            if e.kind == "for" and not e.loops and isinstance(e.value, ast.Call) and ast.unparse(e.value.func) in ("groupby", "itertools.groupby"):
                from .tables import closed as _closed
                v = _closed(s_, e.value, i, opq=frozenset(x.id for x in ast.walk(e.value) if isinstance(x, ast.Name)))
                rows.add((ast.unparse(v), s_.plain_assign().get(JH), ast.unparse(e.target), e.line))
    def parts(txt: str) -> Tuple[str, str]:
        """(stream, key) of a groupby(...) call text, the key in one canonical spelling."""
        c = ast.parse(txt, mode="eval").body
        stream = ast.unparse(c.args[0]) if c.args else ""
        key = c.args[1] if len(c.args) > 1 else next((k.value for k in c.keywords if k.arg == "key"), None)
        kt = ast.unparse(key) if key is not None else ""
        if kt in ("attrgetter('beat')", "operator.attrgetter('beat')"):
            kt = "lambda _c0: _c0.beat"
        return stream, kt

    by_flag: Dict[Optional[bool], set] = {}
    for txt, flag, tgt, ln in rows:
        by_flag.setdefault(flag, set()).add(parts(txt))
    ok_filter = bool(rows) and all(FILTER in parts(txt)[0] for txt, _, _, _ in rows)
    ctx.expect("R-ORDER", g, "only the included note types are considered, with or without joining", ok_filter, "", f"the grouped stream is {sorted(parts(t)[0] for t, _, _, _ in rows)}: "
               f"the include_note_types filter must be applied to the caller's stream before anything else", node=g.node)
    ok_key = bool(rows) and all(parts(txt)[1] == "lambda _c0: _c0.beat" for txt, _, _, _ in rows)
    ctx.expect("R-TABLE", g, "same-beat notes are grouped by beat in stream order", ok_key and len({ln for _, _, _, ln in rows}) == 1, "", f"grouping: {sorted(t for t, _, _, _ in rows)}", node=g.node)
    if join_guard:
        okj = {st for st, _ in by_flag.get(True, set())} == {f"join_heads_to_tails_({FILTER})"} and {st for st, _ in by_flag.get(False, set())} == {FILTER} and set(by_flag) == {True, False}
        ctx.expect("R-ORDER", g, "heads are joined to tails (and orphan policies applied) exactly when join_heads_to_tails is set", okj, "",
                   f"the grouped stream is {({k: sorted(st for st, _ in v) for k, v in by_flag.items()})}: with the option set the joining pass must run (it is also what applies the orphan policies), and never otherwise", node=g.node)
    if not rows or len({ln for _, _, _, ln in rows}) != 1:
        return
    tgt, line = next((t, l) for _, _, t, l in rows)
    tt = ast.parse(tgt, mode="eval").body
    require(isinstance(tt, ast.Tuple) and len(tt.elts) == 2 and isinstance(tt.elts[1], ast.Name), f"{GROUP}: groupby loop target {tgt} is not (key, row)")
    row = tt.elts[1].id
    ROW = f"list({row})"
    # per row
    decs = []
    for s_ in sums:
        if not any(e.kind == "for" and e.line == line for e in s_.effects):
            continue
        inner = [e for e in s_.effects if e.kind == "for" and line in e.loops]
        eff = [e for e in s_.effects if line in e.loops and e.kind in ("yield", "yieldfrom", "raise", "return", "break", "expr")]
        toks = []
        for e in eff:
            t = closed_text(s_, e, keep=[row])
            for f_ in inner:
                if isinstance(f_.target, ast.Name):
                    t = re.sub(rf"\b{re.escape(f_.target.id)}\b", "NOTE", t)
            toks.append(t)
        asg = {}
        for k, v in s_.plain_assign().items():
            for f_ in inner:
                if isinstance(f_.target, ast.Name):
                    k = re.sub(rf"\b{re.escape(f_.target.id)}\b", "NOTE", k)
            asg[k] = v
        loops_txt = tuple(sorted({closed_text(s_, f_, keep=[row]).split(" ", 1)[1] if " " in closed_text(s_, f_, keep=[row]) else "" for f_ in inner}))
        decs.append(Dec(asg, (loops_txt, tuple(toks)), s_))
    decs = _dedupe(decs)
    # a group yielded by groupby is never empty: drop the zero-iteration variant of a path whose row loop can run
    from ..decide import key as _ck
    modes_of = lambda d: tuple(d.assign.get(_ck(k)) for k in SB.values())
    with_loop = {modes_of(d) for d in decs if d.outcome[0]}
    decs = [d for d in decs if d.outcome[0] or modes_of(d) not in with_loop]
    seen = {k for d in decs for k in d.assign}
    sets_ = sorted({k.split(" in ", 1)[1] for k in seen if k.startswith("NOTE.note_type in ")})
    SEEN = f"NOTE.note_type in {sets_[0]}" if len(sets_) == 1 else "NOTE.note_type in SEEN"
    S = sets_[0] if len(sets_) == 1 else "SEEN"

    def spec(a):
        on = [m for m, k in SB.items() if a[k]]
        if len(on) > 1:
            return IGNORE
        if not on:
            return ((), ())
        if on[0] == "KEEP_SEPARATE":
            return OneOf(((ROW,), ("yield [NOTE]",)), ((), (f"yieldfrom [[NOTE] for NOTE in {ROW}]",)))
        if on[0] == "JOIN_ALL":
            return ((), (f"yield {ROW}",))
        if a[SEEN]:
            return OneOf(((ROW,), ("continue",)), ((ROW,), ()))
        return OneOf(((ROW,), (f"{S}.add(NOTE.note_type)", f"yield list(filter(lambda _c0: _c0.note_type == NOTE.note_type, {ROW}))")),
                     ((ROW,), (f"{S}.add(NOTE.note_type)", f"yield [_c0 for _c0 in {ROW} if _c0.note_type == NOTE.note_type]")))

    judge(ctx, "R-TABLE", g, "a row (the notes of one beat) is emitted as one group per note (KEEP_SEPARATE), as one group (JOIN_ALL), or as one group per note type in order of first appearance "
          "(JOIN_BY_NOTE_TYPE)", decs, list(SB.values()) + [SEEN], spec, dont_care=[JH], why="documented same-beat modes")
