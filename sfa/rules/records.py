"""
R-REBUILD (record constructors copy every field), R-CMP (rich comparison
completeness on tuple-based records), R-ENUM (total dispatch on enum options).
"""
from __future__ import annotations

import ast
from typing import Any, Dict, Iterable, List, Optional, Sequence, Set, Tuple

from ..engine import AnalysisError, ClassInfo, EnumVal, External, FunctionInfo, NotConst, body_walk, norm, src, walk_no_nested
from ..facts import RICH, base_defines_rich, total_ordering_fills_only_missing
from ..flow import cfg_node_of, guards_at
from ..report import Ctx
from .common import callee, callee_name, calls, ev, facts, require, try_ev, unparse_facts

RECORDS = ("simfile.notes.Note", "simfile.notes.group.NoteWithTail", "simfile.notes.timed.TimedNote")


# ---------------------------------------------------------------------------
# R-REBUILD


def record_constructions(ctx: Ctx, fi: FunctionInfo, cls_fq: str) -> List[ast.Call]:
    out = []
    for c in calls(fi):
        g = callee(ctx, fi, c)
        if isinstance(g, ClassInfo) and g.fq == cls_fq:
            out.append(c)
    out.sort(key=lambda c: (c.lineno, c.col_offset))
    return out


def field_map(ctx: Ctx, cls_fq: str, call: ast.Call) -> Dict[str, ast.expr]:
    fields = [f for f, _ in ctx.p.records()[cls_fq]]
    out: Dict[str, ast.expr] = {}
    for name, a in zip(fields, call.args):
        if isinstance(a, ast.Starred):
            raise AnalysisError(f"record constructor with *args: {src(call)}")
        out[name] = a
    for k in call.keywords:
        if k.arg is None:
            raise AnalysisError(f"record constructor with **kwargs: {src(call)}")
        out[k.arg] = k.value
    return out


def rebuild_site(ctx: Ctx, fi: FunctionInfo, cls_fq: str, ordinal: int, source: str, overrides: Dict[str, Any], label: str) -> None:
    """
    The *ordinal*-th construction of *cls_fq* in *fi* is a rebuild from local *source*: every field of the target
    is supplied from the same-named attribute of the source, except *overrides*: field -> expected source text
    (ast.unparse form), or None meaning "must be left at its default / passed as None".
    The ``source._replace(...)`` idiom is accepted: unnamed fields are copied by construction.
    """
    p = ctx.p
    fields = p.records()[cls_fq]
    cons = record_constructions(ctx, fi, cls_fq)
    if source.startswith("@"):
        # "@loop:<iterable>" -> the target of the for-loop over that name
        from .common import for_loops
        it = source.split(":", 1)[1]
        tg = [lp.target.id for lp in for_loops(fi) if isinstance(lp.iter, ast.Name) and lp.iter.id == it and isinstance(lp.target, ast.Name)]
        if len(tg) != 1:
            raise AnalysisError(f"{fi.fq}: loop over '{it}' not found (rebuild source)")
        source = tg[0]
    repl = [c for c in calls(fi) if isinstance(c.func, ast.Attribute) and c.func.attr == "_replace" and isinstance(c.func.value, ast.Name) and c.func.value.id == source]
    short = cls_fq.rsplit(".", 1)[-1]
    if ordinal > len(cons):
        if repl:
            # idiom: source._replace(field=...)
            c = repl[0]
            given = {k.arg: k.value for k in c.keywords}
            for fname, want in overrides.items():
                if want is None:
                    ok = fname in given and isinstance(given[fname], ast.Constant) and given[fname].value is None
                    ctx.expect("R-REBUILD", fi, f"{label}: {fname} is cleared", ok, "", f"{src(c)} keeps the source's {fname}", node=c)
                else:
                    ok = fname in given and src(given[fname], 200) == want
                    ctx.expect("R-REBUILD", fi, f"{label}: {fname} <- {want}", ok, "", f"{src(c)}", node=c)
            extra = set(given) - set(overrides)
            ctx.expect("R-REBUILD", fi, f"{label}: no other field is changed", not extra, "", f"{src(c)} also changes {sorted(extra)}", node=c)
            return
        raise AnalysisError(f"{fi.fq}: construction #{ordinal} of {short} not found ({len(cons)} present) - rebuild site '{label}' vanished")
    c = cons[ordinal - 1]
    given = field_map(ctx, cls_fq, c)
    # arguments through single-assignment locals (a refactoring may read the source's fields into temporaries first); the source record is
    # whatever local the same-named fields are read from - its name is the repository's choice
    from ..flow import inline as _inl
    given = {k: _inl(v, fi) for k, v in given.items()}
    bases = [v.value.id for k, v in given.items() if k not in overrides and isinstance(v, ast.Attribute) and v.attr == k and isinstance(v.value, ast.Name)]
    if bases and len(set(bases)) == 1 and bases[0] != source:
        new_source = bases[0]
        overrides = {k: (w.replace(f"{source}.", f"{new_source}.") if isinstance(w, str) else w) for k, w in overrides.items()}
        source = new_source
    for fname, default in fields:
        construct = f"{label}: field {fname}"
        if fname in overrides:
            want = overrides[fname]
            if want is None:
                ok = fname not in given or (isinstance(given[fname], ast.Constant) and given[fname].value is None)
                ctx.expect("R-REBUILD", fi, construct, ok, "left at None", f"{fname}={src(given[fname]) if fname in given else ''}: the rebuilt {short} must not carry a {fname}", node=c)
            else:
                ok = fname in given and src(given[fname], 200) == want
                ctx.expect("R-REBUILD", fi, construct, ok, want, f"{fname} is {src(given[fname]) if fname in given else 'not supplied'}, expected {want}", node=c)
            continue
        if fname not in given:
            ctx.bad("R-REBUILD", fi, construct, f"{short}(...) built from '{source}' does not supply '{fname}': it silently falls back to the default "
                    f"({src(default) if default is not None else 'none'}) and the source's value is lost", node=c)
            continue
        a = given[fname]
        ok = isinstance(a, ast.Attribute) and a.attr == fname and isinstance(a.value, ast.Name) and a.value.id == source
        ctx.expect("R-REBUILD", fi, construct, ok, f"{source}.{fname}", f"{fname}={src(a)} instead of {source}.{fname}", node=c)
    unknown = set(given) - {f for f, _ in fields}
    if unknown:
        ctx.bad("R-REBUILD", fi, f"{label}: unknown fields", f"{sorted(unknown)}", node=c)


def rebuild_census(ctx: Ctx, known_sites: Dict[Tuple[str, str], int]) -> None:
    """Thorough: every construction of a note record in the package is one of the judged sites (or recorded)."""
    total = 0
    for f in ctx.p.nontest_functions():
        for cls in RECORDS:
            cons = record_constructions(ctx, f, cls)
            total += len(cons)
            exp = known_sites.get((f.fq, cls), 0)
            if len(cons) > exp:
                for c in cons[exp:]:
                    ctx.observe("R-REBUILD", f, f"construction of {cls.rsplit('.', 1)[-1]} outside the judged sites", src(c, 100), node=c)
    ctx.floor("record constructor sites", total, 7)


# ---------------------------------------------------------------------------
# R-CMP


def _cmp_key_call(fn: FunctionInfo, op_type) -> Optional[str]:
    """If the method body is `return [bool(] self.K() <op> other.K() [)]` return K."""
    body = [s for s in fn.node.body if not (isinstance(s, ast.Expr) and isinstance(s.value, ast.Constant))]
    if len(body) != 1 or not isinstance(body[0], ast.Return):
        return None
    v = body[0].value
    if isinstance(v, ast.Call) and isinstance(v.func, ast.Name) and v.func.id == "bool" and len(v.args) == 1:
        v = v.args[0]
    if not (isinstance(v, ast.Compare) and len(v.ops) == 1 and isinstance(v.ops[0], op_type)):
        return None
    ps = fn.param_names()
    if len(ps) != 2:
        return None
    l, r = v.left, v.comparators[0]

    def key_of(e, who):
        if isinstance(e, ast.Call) and not e.args and isinstance(e.func, ast.Attribute) and isinstance(e.func.value, ast.Name) and e.func.value.id == who:
            return e.func.attr
        return None

    kl, kr = key_of(l, ps[0]), key_of(r, ps[1])
    if kl and kl == kr:
        return kl
    return None


OPS = {"__lt__": ast.Lt, "__le__": ast.LtE, "__gt__": ast.Gt, "__ge__": ast.GtE}


def cmp_rule(ctx: Ctx, cls_fq: str, spec_key: Optional[Sequence[str]], public: bool = True) -> None:
    p = ctx.p
    ci = p.cls(cls_fq)
    own = [op for op in RICH if op in ci.methods]
    inherited: List[str] = []
    for b in p.mro(ci)[1:]:
        if isinstance(b, External):
            t = p.external_class(b)
            if t is not None:
                inherited = base_defines_rich(t)
                if inherited:
                    break
    if not own:
        ctx.observe("R-CMP", ci, "no custom rich comparison", "", node=ci.node)
        return
    require(total_ordering_fills_only_missing(), "functools.total_ordering no longer skips operators a base class defines")
    missing = [op for op in RICH if op not in own and op in inherited]
    if not public:
        ctx.observe("R-CMP", ci, "private record with a partial custom order", f"defines {own}; {missing} come from the base (only '<' is used: heapq.merge)", node=ci.node)
        return
    for op in RICH:
        if op in own:
            k = _cmp_key_call(ci.methods[op], OPS[op])
            ctx.expect("R-CMP", ci, f"{op} compares the position key", k is not None, f"via {k}()",
                       f"{ci.name}.{op} is not 'self.<key>() {ast.unparse(ast.Compare(left=ast.Name(id='a'), ops=[OPS[op]()], comparators=[ast.Name(id='b')]))[2:-2].strip()} other.<key>()'", node=ci.methods[op].node)
        elif op in inherited:
            ctx.bad("R-CMP", ci, f"{op} follows the position order",
                    f"{ci.name} defines {own} on a custom key but inherits {op} from tuple (field order): total_ordering does not replace an inherited operator, "
                    f"so '<' and '{op[2:-2]}' disagree for notes whose key order differs from their field order", node=ci.node)
        else:
            has_to = any("total_ordering" in d for d in ci.decorators())
            ctx.expect("R-CMP", ci, f"{op} is derived by total_ordering", has_to, "", f"{op} is not defined and nothing derives it", node=ci.node)
    keys = {_cmp_key_call(ci.methods[op], OPS[op]) for op in own}
    ctx.expect("R-CMP", ci, "all operators use the same key function", len(keys) == 1 and None not in keys, str(keys), f"key functions: {keys}", node=ci.node)
    if spec_key is not None and len(keys) == 1 and None not in keys:
        kname = list(keys)[0]
        kf = ci.methods.get(kname)
        require(kf is not None, f"{cls_fq}.{kname} not found")
        rets = [n for n in body_walk(kf.node) if isinstance(n, ast.Return)]
        sn = kf.param_names()[0]
        got = None
        if len(rets) == 1 and isinstance(rets[0].value, ast.Tuple):
            got = [e.attr if isinstance(e, ast.Attribute) and isinstance(e.value, ast.Name) and e.value.id == sn else src(e) for e in rets[0].value.elts]
        ctx.expect("R-TABLE", ci, f"position key is ({', '.join(spec_key)})", got == list(spec_key), str(got), f"{kname}() returns {got}; the position order is {list(spec_key)}", node=kf.node)


# ---------------------------------------------------------------------------
# R-ENUM


def _enum_tests(ctx: Ctx, fi: FunctionInfo) -> Dict[str, List[Tuple[ast.Compare, List[EnumVal], ast.expr]]]:
    """norm(subject) -> [(compare node, members tested, subject expr)] for comparisons subject == Enum.M / in (..)."""
    out: Dict[str, List[Tuple[ast.Compare, List[EnumVal], ast.expr]]] = {}
    for n in body_walk(fi.node):
        if isinstance(n, ast.Compare) and len(n.ops) == 1:
            op = n.ops[0]
            l, r = n.left, n.comparators[0]
            for a, b in ((l, r), (r, l)):
                if isinstance(op, (ast.Eq, ast.Is, ast.NotEq, ast.IsNot)):
                    v = try_ev(ctx, fi, b)
                    if isinstance(v, EnumVal) and not isinstance(try_ev(ctx, fi, a), EnumVal) and isinstance(a, (ast.Name, ast.Attribute)):
                        out.setdefault(norm(a), []).append((n, [v], a))
                        break
                if isinstance(op, (ast.In, ast.NotIn)) and a is l:
                    v = try_ev(ctx, fi, b)
                    if isinstance(v, (tuple, list, frozenset, set)) and v and all(isinstance(x, EnumVal) for x in v) and isinstance(a, (ast.Name, ast.Attribute)):
                        out.setdefault(norm(a), []).append((n, list(v), a))
                        break
    return out


def enum_dispatch(ctx: Ctx, fq: str, subject: str, fallthrough: Optional[Dict[str, str]] = None, enum_cls: Optional[str] = None) -> None:
    """Every member of the enum the option *subject* is compared against is handled in *fq*:
    tested explicitly, or covered by a raise reachable when every tested member is excluded, or listed in *fallthrough*."""
    p = ctx.p
    fi = p.func(fq)
    cfg = ctx.cfg(fi)
    tests = _enum_tests(ctx, fi)
    key = norm(ast.parse(subject, mode="eval").body)
    if key not in tests and enum_cls is not None:
        # the subject is a local: identify the chain by the enum class its members belong to
        cands = [k for k, items_ in tests.items() if all(m.cls == enum_cls for _, ms, _ in items_ for m in ms)]
        if len(cands) == 1:
            key = cands[0]
            subject = src(tests[key][0][2])
    if key not in tests:
        raise AnalysisError(f"{fq}: no comparison of '{subject}' with an enum member found (dispatch vanished)")
    items = tests[key]
    tested: Set[str] = set()
    enum_cls = items[0][1][0].cls
    for cmp_, members, _ in items:
        for m in members:
            tested.add(m.name)
    allm = set(p.enum_members(p.cls(enum_cls)).keys())
    missing = allm - tested
    covered_by_raise = False
    # guards shared by every comparison of the chain (e.g. an enclosing 'if key in table:') do not count against a raise
    common = None
    for cmp_, _, _ in items:
        fs_c = {(norm(a), pol) for a, pol in guards_at(cfg, cfg_node_of(cfg, fi, cmp_)) if not any(a is c for c, _, _ in items)}
        common = fs_c if common is None else (common & fs_c)
    common = common or set()
    if missing:
        for r in [n for n in body_walk(fi.node) if isinstance(n, ast.Raise)]:
            fs = guards_at(cfg, cfg_node_of(cfg, fi, r))
            # the raise is reachable for an untested member iff no positive fact pins the subject to a tested member
            pinned = False
            for atom, pol in fs:
                if isinstance(atom, ast.Compare) and any(atom is c for c, _, _ in items):
                    if pol and isinstance(atom.ops[0], (ast.Eq, ast.Is, ast.In)):
                        pinned = True
                    if (not pol) and isinstance(atom.ops[0], (ast.NotEq, ast.IsNot, ast.NotIn)):
                        pinned = True
            item_ids = {id(c) for c, _, _ in items}
            other_guards = [a for a, pol in fs if not any(a is c for c, _, _ in items) and (norm(a), pol) not in common
                            and not (isinstance(a, ast.BoolOp) and any(id(x) in item_ids for x in ast.walk(a)))]
            if not pinned and not other_guards:
                covered_by_raise = True
    short = enum_cls.rsplit(".", 1)[-1]
    for m in sorted(allm):
        construct = f"{subject}: member {short}.{m}"
        if m in tested:
            ctx.ok("R-ENUM", fi, construct, "tested explicitly")
        elif covered_by_raise:
            ctx.ok("R-ENUM", fi, construct, "falls to a raise")
        elif fallthrough and m in fallthrough:
            ctx.ok("R-ENUM", fi, construct, "documented fall-through: " + fallthrough[m])
        else:
            ctx.bad("R-ENUM", fi, construct, f"the dispatch on '{subject}' neither tests {short}.{m} nor ends in a raise: the member is handled by accident of fall-through", node=items[0][0])


def enum_census(ctx: Ctx, judged: Set[Tuple[str, str]]) -> None:
    n = 0
    for f in ctx.p.nontest_functions():
        for key, items in _enum_tests(ctx, f).items():
            subj = src(items[0][2])
            n += 1
            if (f.fq, subj) not in judged:
                ctx.observe("R-ENUM", f, f"enum comparison on '{subj}' outside the judged dispatch chains", f"{len(items)} comparison(s)", node=items[0][0])
    ctx.floor("enum-typed comparisons", n, 6)
