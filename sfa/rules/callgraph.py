"""
Resolved call graph over the non-test package.
"""
from __future__ import annotations

import ast
from typing import Any, Dict, List, Optional, Set, Tuple

from ..engine import ClassInfo, External, FunctionInfo, Program, body_walk, src
from ..report import Ctx
from .common import callee, calls

_cg_cache: Dict[int, "CallGraph"] = {}


class CallGraph:
    def __init__(self, ctx: Ctx):
        self.p = ctx.p
        self.edges: Dict[str, List[Tuple[ast.Call, Any]]] = {}  # caller fq -> [(call, callee entity)]
        self.unresolved: List[Tuple[str, str]] = []
        self.total = 0
        for f in ctx.p.nontest_functions():
            out = []
            for c in calls(f):
                self.total += 1
                g = callee(ctx, f, c)
                if g is None and isinstance(c.func, ast.Name):
                    # a local holding one of several callables: cls = A if flag else B; cls(...)
                    alts = self._alternatives(ctx, f, c.func.id)
                    if alts:
                        for a in alts:
                            out.append((c, a))
                        continue
                if g is None:
                    self.unresolved.append((f.fq, src(c.func, 60)))
                out.append((c, g))
            self.edges[f.fq] = out

    def _alternatives(self, ctx: Ctx, f: FunctionInfo, name: str) -> List[Any]:
        from ..flow import locals_of
        out: List[Any] = []
        bs = locals_of(f).b.get(name, [])
        if not bs:
            return []
        for b in bs:
            if b.kind != "assign" or b.value is None:
                return []
            v = b.value
            opts = [v.body, v.orelse] if isinstance(v, ast.IfExp) else (list(v.values) if isinstance(v, ast.BoolOp) else [v])
            for o in opts:
                if not isinstance(o, (ast.Name, ast.Attribute)):
                    return []
                r = ctx.p.resolve_expr(f.module, o)
                if not isinstance(r, (FunctionInfo, ClassInfo)):
                    return []
                out.append(r)
        return out

    def target(self, g: Any) -> Optional[FunctionInfo]:
        """The function a call to *g* runs: a constructor call runs __init__ (and __new__) along the MRO."""
        if isinstance(g, FunctionInfo):
            return g
        if isinstance(g, ClassInfo):
            m = self.p.lookup_member(g, "__init__")
            if m and m[0] == "method":
                return m[1]
        return None

    def callees(self, f: FunctionInfo) -> List[FunctionInfo]:
        out = []
        for c, g in self.edges.get(f.fq, []):
            t = self.target(g)
            if t is not None:
                out.append(t)
            if isinstance(g, ClassInfo):
                m = self.p.lookup_member(g, "__new__")
                if m and m[0] == "method":
                    out.append(m[1])
        # nested functions are part of their parent
        for n in f.nested.values():
            out.append(n)
        return out

    def reach(self, f: FunctionInfo) -> Set[str]:
        seen: Set[str] = set()
        stack = [f]
        while stack:
            x = stack.pop()
            if x.fq in seen:
                continue
            seen.add(x.fq)
            stack.extend(self.callees(x))
        return seen

    def external_calls(self, f: FunctionInfo) -> List[Tuple[ast.Call, str]]:
        return [(c, g.name) for c, g in self.edges.get(f.fq, []) if isinstance(g, External)]

    def ratio(self) -> float:
        return 1.0 - len(self.unresolved) / max(1, self.total)


def callgraph(ctx: Ctx) -> CallGraph:
    k = id(ctx.p)
    if k not in _cg_cache:
        _cg_cache[k] = CallGraph(ctx)
    return _cg_cache[k]
