"""
Timing engine, Beat arithmetic, split timing and display BPM (properties C11-C15).
"""
from __future__ import annotations

import ast
import re
from typing import Any, Dict, List, Optional, Sequence, Set, Tuple

from ..engine import AnalysisError, ClassInfo, Descriptor, EnumVal, External, FunctionInfo, body_walk, norm, src, walk_no_nested
from ..facts import fraction_dunders
from ..flow import cfg_node_of, guards_at, inline, locals_of
from ..report import Ctx
from . import dim as D
from .common import (callee, callee_name, calls, ev, facts, for_loops, in_body, method_calls, one, parent, require, self_attr, try_ev,
                     unparse_facts)
from .records import field_map, record_constructions

ENG = "simfile.timing.engine"
TE = f"{ENG}:TimingEngine"
SPEC_TAGS = ["WARP", "WARP_END", "BPM", "DELAY", "DELAY_END", "STOP", "STOP_END"]


def _tag_set(ctx: Ctx, fi: FunctionInfo, e: ast.expr) -> Optional[Set[str]]:
    v = try_ev(ctx, fi, e)
    if isinstance(v, (tuple, list, frozenset, set)) and all(isinstance(x, EnumVal) for x in v):
        return {x.name for x in v}
    return None


def _membership(ctx: Ctx, fi: FunctionInfo, atom: ast.expr, subject: str) -> Optional[Set[str]]:
    """``<subject> in (Tag.A, Tag.B)`` / ``== Tag.A`` -> {A, B}."""
    if isinstance(atom, ast.Compare) and len(atom.ops) == 1 and ast.unparse(atom.left) == subject:
        if isinstance(atom.ops[0], ast.In):
            return _tag_set(ctx, fi, atom.comparators[0])
        if isinstance(atom.ops[0], ast.Eq):
            v = try_ev(ctx, fi, atom.comparators[0])
            if isinstance(v, EnumVal):
                return {v.name}
    return None


# ---------------------------------------------------------------------------
# C11.1 tag order


def tag_order(ctx: Ctx, methods: Sequence[str] = ("time_at", "beat_at")) -> None:
    p = ctx.p
    ci = p.cls(f"{ENG}.EventTag")
    mem = p.enum_members(ci)
    order = [m.name for m in sorted(mem.values(), key=lambda m: m.value)]
    vals = [m.value for m in mem.values()]
    ctx.expect("R-TABLE", ci, "EventTag order: WARP < WARP_END < BPM < DELAY < DELAY_END < STOP < STOP_END", order == SPEC_TAGS and len(set(vals)) == len(vals),
               str(order), f"tags sorted by value are {order}; the timeline needs {SPEC_TAGS}", node=ci.node)
    ctx.expect("R-TABLE", ci, "EventTag is an IntEnum (tags compare by value)", any(isinstance(b, External) and b.name == "enum.IntEnum" for b in ci.bases), "", "", node=ci.node)
    for name in methods:
        f = p.func(f"{TE}.{name}")
        d = f.defaults().get("event_tag")
        v = try_ev(ctx, f, d) if d is not None else None
        ctx.expect("R-TABLE", f, f"default tag of {name} is STOP", isinstance(v, EnumVal) and v.name == "STOP", str(v), f"default event_tag is {v}", node=f.node)


def _lex_key_semantic(ctx: Ctx, ci: ClassInfo, m: FunctionInfo, s: str, o: str) -> Optional[List[str]]:
    """Field order of a lexicographic '<' decided from the function's decision table (any equivalent control-flow shape)."""
    import itertools
    import re as _re
    from ..decide import decisions, check_table, key as _k, IGNORE
    try:
        decs = decisions(ctx, m)
    except AnalysisError:
        return None
    keys = set()
    for d in decs:
        keys.update(d.assign)
    used = []
    for k in sorted(keys):
        mm = _re.fullmatch(rf"{s}\.(\w+) < {o}\.(\w+)", k)
        if mm and mm.group(1) == mm.group(2) and mm.group(1) not in used:
            used.append(mm.group(1))
    if not used or len(used) > 3:
        return None

    def outcome(d):
        kk, v = d.terminal()
        c = try_ev(ctx, m, v) if v is not None else None
        return c if kk == "return" and isinstance(c, bool) else "?"

    for order in itertools.permutations(used):
        lt = {f: _k(f"{s}.{f} < {o}.{f}") for f in order}
        eq = {f: _k(f"{s}.{f} == {o}.{f}") for f in order}
        atoms = [lt[f] for f in order] + [eq[f] for f in order if eq[f] in keys]

        def spec(a, order=order, lt=lt, eq=eq):
            for i, f in enumerate(order):
                l_ = a[lt[f]]
                e_ = a.get(eq[f])
                if e_ is None:
                    # the last field needs no equality test
                    return True if l_ else (False if i == len(order) - 1 else IGNORE)
                if l_ and e_:
                    return IGNORE
                if l_:
                    return True
                if not e_:
                    return False
            return False

        v, u = check_table(decs, atoms, spec, outcome)
        if not v and not u:
            return list(order)
    return None


def _lex_key(ctx: Ctx, ci: ClassInfo) -> Optional[List[str]]:
    """Field order of a lexicographic __lt__: `if a.x < b.x: True; if a.x == b.x: if a.y < b.y: True; False` or a tuple compare."""
    m = ci.methods.get("__lt__")
    if m is None:
        return None
    s, o = m.param_names()
    body = [st for st in m.node.body if not (isinstance(st, ast.Expr) and isinstance(st.value, ast.Constant))]
    # tuple form
    if len(body) == 1 and isinstance(body[0], ast.Return) and isinstance(body[0].value, ast.Compare) and isinstance(body[0].value.ops[0], ast.Lt):
        l, r = body[0].value.left, body[0].value.comparators[0]
        if isinstance(l, ast.Tuple) and isinstance(r, ast.Tuple) and len(l.elts) == len(r.elts):
            fl = [self_attr(e, s) for e in l.elts]
            fr = [self_attr(e, o) for e in r.elts]
            if fl == fr and None not in fl:
                return fl
        return None
    sem = _lex_key_semantic(ctx, ci, m, s, o)
    if sem is not None:
        return sem
    fields: List[str] = []

    def lt_of(test) -> Optional[str]:
        if isinstance(test, ast.Compare) and len(test.ops) == 1 and isinstance(test.ops[0], ast.Lt):
            a, b = self_attr(test.left, s), self_attr(test.comparators[0], o)
            if a and a == b:
                return a
        return None

    def eq_of(test) -> Optional[str]:
        if isinstance(test, ast.Compare) and len(test.ops) == 1 and isinstance(test.ops[0], ast.Eq):
            a, b = self_attr(test.left, s), self_attr(test.comparators[0], o)
            if a and a == b:
                return a
        return None

    def ret_true(stmts) -> bool:
        return len(stmts) == 1 and isinstance(stmts[0], ast.Return) and isinstance(stmts[0].value, ast.Constant) and stmts[0].value.value is True

    def walk(stmts) -> bool:
        # [if lt(f): return True] [if eq(f): <rest>] [return False]
        i = 0
        if i < len(stmts) and isinstance(stmts[i], ast.If) and lt_of(stmts[i].test) and ret_true(stmts[i].body) and not stmts[i].orelse:
            fields.append(lt_of(stmts[i].test))
            i += 1
        else:
            return False
        if i < len(stmts) and isinstance(stmts[i], ast.If) and eq_of(stmts[i].test) == fields[-1] and not stmts[i].orelse:
            if not walk(stmts[i].body):
                return False
            i += 1
        return True

    if not walk(body[:-1] if body and isinstance(body[-1], ast.Return) else body):
        return None
    last = body[-1]
    if not (isinstance(last, ast.Return) and isinstance(last.value, ast.Constant) and last.value.value is False):
        return None
    return fields


# ---------------------------------------------------------------------------
# C11.2 event pairing


def warp_union(ctx: Ctx) -> None:
    """Overlapping or touching warps act as their union: _coalesce_warps as a decision table per warp."""
    p = ctx.p
    # _coalesce_warps returns [(starts, WARP), (ends, WARP_END)]; per warp: extend the last segment, or leave it, or start a new one
    cw = p.func(f"{TE}._coalesce_warps")
    from .tables import judge as tjudge, loop_decs, sums_of as tsums
    csums = tsums(ctx, cw)
    rets = {ast.unparse(s_.terminal()[1]) if s_.terminal()[1] is not None else s_.terminal()[0] for s_ in csums}
    S = E = None
    if len(rets) == 1:
        try:
            rv = ast.parse(next(iter(rets)), mode="eval").body
        except SyntaxError:
            rv = None
        if isinstance(rv, (ast.List, ast.Tuple)) and len(rv.elts) == 2 and all(isinstance(e, ast.Tuple) and len(e.elts) == 2 and isinstance(e.elts[0], ast.Name) for e in rv.elts):
            if [ast.unparse(e.elts[1]) for e in rv.elts] == ["EventTag.WARP", "EventTag.WARP_END"]:
                S, E = rv.elts[0].elts[0].id, rv.elts[1].elts[0].id
    ctx.expect("R-TABLE", cw, "warps become (starts, WARP) and (ends, WARP_END) event lists", S is not None and S != E, str(sorted(rets)), f"returns {sorted(rets)}", node=cw.node)
    if S is not None and S != E:
        fresh = all(any(e.kind == "bind" and isinstance(e.target, ast.Name) and e.target.id == nm and e.value is not None and ast.unparse(e.value) == "BeatValues()" and not e.loops for e in s_.effects)
                    for s_ in csums for nm in (S, E))
        bound_before = all(any(e.kind == "bind" and isinstance(e.target, ast.Name) and e.target.id == nm and not e.loops and not any(x.kind == "for" for x in s_.effects[:i]) for i, e in enumerate(s_.effects))
                           for s_ in csums for nm in (S, E))
        if not fresh and not bound_before:
            if _segment_pairs(ctx, cw, csums, S, E):
                return
            raise AnalysisError(f"{cw.fq}: the two event lists are built only after the warps were walked - the segments are kept in another representation, which this rule does not model")
        ctx.expect("R-TABLE", cw, "both lists start empty", fresh, "", f"{S} / {E} are not fresh BeatValues() before the loop", node=cw.node)
        wl = {(ast.unparse(e.target), e.line) for s_ in csums for e in s_.effects if e.kind == "for" and ast.unparse(e.value) == f"{cw.param_names()[0]}.timing_data.warps"}
        allloops = {e.line for s_ in csums for e in s_.effects if e.kind == "for"}
        if len(allloops) == 2 and _segment_pairs(ctx, cw, csums, S, E):
            return  # the other representation: segments collected as (start, end) pairs first, the two lists filled from them afterwards
        ctx.expect("R-TABLE", cw, "every warp of the timing data is considered, in order", len(wl) == 1 and len(allloops) == 1, str(sorted(wl)), f"loops over the warps: {sorted(wl)} (all loops: {sorted(allloops)})", node=cw.node)
        if len(wl) == 1 and len(allloops) == 1:
            w, line = next(iter(wl))
            WEND = f"{w}.beat + Beat({w}.value)"
            A, Bc, C = S, f"{w}.beat <= {E}[-1].beat", f"{WEND} > {E}[-1].beat"

            def spec(a):
                if a[A] and a[Bc]:
                    return (f"{E}[-1] = BeatValue(beat={WEND}, value=Decimal(0))",) if a[C] else ()
                return (f"{S}.append(BeatValue(beat={w}.beat, value=Decimal(0)))", f"{E}.append(BeatValue(beat={WEND}, value=Decimal(0)))")

            from .tables import touches as _touches
            # a loop-carried copy of the last segment's end (None while there is no segment) is the same thing as reading it from the list:
            # accepted when it is re-bound to the new end on exactly the paths that change the last element of the ends list
            fix = lambda t: t
            extra_equiv = {}
            cands = {e.target.id for s_ in csums for e in s_.effects if e.kind == "bind" and line in e.loops and isinstance(e.target, ast.Name) and e.target.id not in (S, E)
                     and e.value is not None and ast.unparse(e.value) == WEND}
            for L in sorted(cands):
                coherent = True
                for s_ in csums:
                    fi_ = next((i for i, e in enumerate(s_.effects) if e.kind == "for" and e.line == line), None)
                    if fi_ is None:
                        continue
                    r0 = s_.resolve(L, fi_)
                    if r0 is None or r0[1].value is None or ast.unparse(r0[1].value) != "None":
                        coherent = False
                    changes = [e for e in s_.effects if line in e.loops and e.kind != "bind" and _touches(e, [E])]
                    rebinds = [e for e in s_.effects if line in e.loops and e.kind == "bind" and isinstance(e.target, ast.Name) and e.target.id == L]
                    if bool(changes) != bool(rebinds) or any(ast.unparse(e.value) != WEND for e in rebinds):
                        coherent = False
                if coherent:
                    import re as _re
                    fix = (lambda t, _L=L, _f=fix: _re.sub(rf"\b{_L}\b", f"{E}[-1].beat", _f(t)))
                    extra_equiv[f"{E}[-1].beat is None"] = (A, False)
                    ctx.observe("R-TABLE", cw, f"'{L}' is a loop-carried copy of the last segment end", "re-bound on exactly the paths that change the ends list; None while no segment exists", node=cw.node)
            decs = loop_decs(csums, line, [S, E], fix=fix, relevant=lambda e: e.kind != "bind" and _touches(e, [S, E]))
            eqv = {f"len({S}) > 0": (A, True), f"{E}": (A, True), f"len({E}) > 0": (A, True)}
            eqv.update(extra_equiv)
            tjudge(ctx, "R-TABLE", cw, "overlapping or touching warps act as their union: a warp starting at or before the last end extends it when it ends later (<=, >); any other warp starts a new segment", decs,
                   [A, Bc, C], spec, equiv=eqv,
                   why="the WARP / WARP_END events must alternate and cover exactly the union of the warps")


def _segment_pairs(ctx: Ctx, cw, csums, S: str, E: str) -> bool:
    """The other representation of _coalesce_warps: one list of (start, end) pairs filled while the warps are walked, the two event lists built
    from it afterwards.  Same decision table, on the pair list: a warp starting at or before the last pair's end extends that pair when it ends
    later, any other warp appends a new pair; starts / ends are the pairs' first / second components as zero-valued events."""
    from .tables import judge as tjudge, loop_decs, sums_of as tsums, closed as _cl
    sp = cw.param_names()[0]
    wl = {(ast.unparse(e.target), e.line) for s_ in csums for e in s_.effects if e.kind == "for" and ast.unparse(e.value) == f"{sp}.timing_data.warps"}
    if len(wl) != 1:
        return False
    w, line = next(iter(wl))
    cands = set()
    for s_ in csums:
        for e in s_.effects:
            if e.kind == "expr" and line in e.loops and isinstance(e.value, ast.Call) and isinstance(e.value.func, ast.Attribute) and e.value.func.attr == "append" \
                    and isinstance(e.value.func.value, ast.Name) and len(e.value.args) == 1 and isinstance(e.value.args[0], ast.Tuple) and len(e.value.args[0].elts) == 2:
                cands.add(e.value.func.value.id)
    if len(cands) != 1:
        return False
    L = next(iter(cands))
    fresh = all(any(e.kind == "bind" and isinstance(e.target, ast.Name) and e.target.id == L and e.value is not None and ast.unparse(e.value) == "[]" and not e.loops for e in s_.effects) for s_ in csums)
    ctx.expect("R-TABLE", cw, "the segment list starts empty", fresh, "", f"{L} is not a fresh [] before the loop", node=cw.node)
    WEND = f"{w}.beat + Beat({w}.value)"
    LAST = f"{L}[-1][1]"
    A, Bc, C = L, f"{w}.beat <= {LAST}", f"{WEND} > {LAST}"

    def spec(a):
        if a[A] and a[Bc]:
            return (f"{L}[-1] = ({L}[-1][0], {WEND})",) if a[C] else ()
        return (f"{L}.append(({w}.beat, {WEND}))",)

    from .tables import touches as _touches
    decs = loop_decs(csums, line, [L], relevant=lambda e: e.kind != "bind" and _touches(e, [L]))
    tjudge(ctx, "R-TABLE", cw, "overlapping or touching warps act as their union: a warp starting at or before the last end extends it when it ends later (<=, >); any other warp starts a new segment", decs,
           [A, Bc, C], spec, equiv={f"len({L}) > 0": (A, True)}, why="the WARP / WARP_END events must alternate and cover exactly the union of the warps")
    # the two event lists: the pairs' components as zero-valued events, in order
    forms = {}
    for s_ in csums:
        for nm, idx in ((S, 0), (E, 1)):
            r = s_.resolve(nm, len(s_.effects))
            if r is not None and r[1].value is not None:
                forms.setdefault(nm, set()).add(ast.unparse(_cl(s_, r[1].value, r[0])))
    want_s = f"BeatValues((BeatValue(beat=_c0, value=Decimal(0)) for _c0, _c1 in {L}))"
    want_e = f"BeatValues((BeatValue(beat=_c1, value=Decimal(0)) for _c0, _c1 in {L}))"
    ok = forms.get(S) == {want_s} and forms.get(E) == {want_e}
    if not ok and forms.get(S) == {"BeatValues()"} and forms.get(E) == {"BeatValues()"}:
        # the same two lists filled by one loop over the pairs: S.append(BeatValue(beat=<first>, value=0)); E.append(BeatValue(beat=<second>, value=0)),
        # unconditionally, once per pair
        good_paths = 0
        bad_paths = 0
        for s_ in csums:
            loops2 = [(i, e) for i, e in enumerate(s_.effects) if e.kind == "for" and e.value is not None and ast.unparse(e.value) == L and isinstance(e.target, ast.Tuple) and len(e.target.elts) == 2]
            if not loops2:
                continue
            i0, le = loops2[0]
            a_, b_ = [x.id for x in le.target.elts if isinstance(x, ast.Name)] if all(isinstance(x, ast.Name) for x in le.target.elts) else (None, None)
            inside = [e for e in s_.effects[i0 + 1:] if le.line in e.loops]
            apps = {}
            other = []
            for e in inside:
                v = e.value
                if e.kind == "expr" and isinstance(v, ast.Call) and isinstance(v.func, ast.Attribute) and v.func.attr == "append" and isinstance(v.func.value, ast.Name) and v.func.value.id in (S, E) and len(v.args) == 1:
                    apps.setdefault(v.func.value.id, []).append(ast.unparse(_cl(s_, v.args[0], s_.effects.index(e))))
                elif e.kind != "bind":
                    other.append(e.text)
            conds = [k for k in s_.atoms_in(le.line)]
            if apps.get(S) == [f"BeatValue(beat={a_}, value=Decimal(0))"] and apps.get(E) == [f"BeatValue(beat={b_}, value=Decimal(0))"] and not other and not conds:
                good_paths += 1
            else:
                bad_paths += 1
        ok = good_paths > 0 and bad_paths == 0
    ctx.expect("R-TABLE", cw, "WARP events are the segments' starts and WARP_END events their ends (zero-valued, in segment order)", ok, "", f"starts: {sorted(forms.get(S, []))}; ends: {sorted(forms.get(E, []))}", node=cw.node)
    return True


def event_pairing(ctx: Ctx) -> None:
    """C11.2: how the timeline is built, read off the path effects of _retime_events (helpers inlined, temporaries resolved, comprehension / map /
    loop spellings canonical): the initial state; the (events, tag) pairs; every event tagged with its list's tag; the lists merged by
    TaggedEvent order; every merged event fed to the state machine in order; a first BPM that is not on beat 0 refused."""
    p = ctx.p
    f = p.func(f"{TE}._retime_events")
    sn = f.param_names()[0]
    from .tables import closed, list_items, sums_of as tsums0, terminal_text
    fsums = tsums0(ctx, f)
    require(bool(fsums), f"{f.fq}: no path")
    ok_paths = [s_ for s_ in fsums if s_.end != "raise"]
    require(bool(ok_paths), f"{f.fq}: no path that builds the timeline")
    INIT = (f"TimingStateMachine([TimingState(event=TimedEvent(beat=Beat(0), value={sn}.timing_data.bpms[0].value, tag=EventTag.BPM, time=SongTime(-{sn}.timing_data.offset)), "
            f"bpm={sn}.timing_data.bpms[0].value, warp=False)])")
    FIRST0 = f"{sn}.timing_data.bpms[0].beat == 0"
    from ..decide import key as _ck
    inits, streams, bodies, pair_sets, starred_sets = set(), set(), set(), [], []
    unresolved_names = set()
    for s_ in ok_paths:
        for i, e in enumerate(s_.effects):
            if e.kind == "store" and ast.unparse(e.target) == f"{sn}._state_machine":
                inits.add(ast.unparse(closed(s_, e.value, i)))
        loops = [(i, e) for i, e in enumerate(s_.effects) if e.kind == "for" and any(x.kind == "expr" and e.line in x.loops and ".advance(" in x.text for x in s_.effects)]
        if not loops:
            continue
        i, lp = loops[0]
        it = closed(s_, lp.value, i)
        tgt = ast.unparse(lp.target)
        body = tuple(x.text for x in s_.effects if lp.line in x.loops and x.kind in ("expr", "store", "aug", "delete", "break", "continue", "return", "raise"))
        bodies.add(tuple(t.replace(tgt, "EVENT") for t in body))
        # merge(*[[TaggedEvent(beat=E.beat, value=E.value, tag=T) for E in EVS] for EVS, T in <pairs>])
        shape = None
        pairs_name = None
        wrapped = isinstance(it, ast.Call) and not callee_name_text(it).endswith("merge") and any(isinstance(n, ast.Call) and callee_name_text(n).endswith("merge") for n in ast.walk(it))
        if wrapped:
            shape = f"{callee_name_text(it)}(...) around the merged stream"  # re-ordered / filtered after merging: a definite deviation
        if isinstance(it, ast.Call) and callee_name_text(it).endswith("merge") and len(it.args) == 1 and isinstance(it.args[0], ast.Starred) and not it.keywords:
            outer = it.args[0].value
            if isinstance(outer, ast.Name):
                from .tables import loop_built as _lb
                lb = _lb(s_, outer.id, i)
                if lb is not None:
                    outer = closed(s_, lb, i)
                else:
                    unresolved_names.add(outer.id)
            if isinstance(outer, ast.ListComp) and len(outer.generators) == 1 and not outer.generators[0].ifs and isinstance(outer.generators[0].target, ast.Tuple) and len(outer.generators[0].target.elts) == 2:
                ev_v, tag_v = [ast.unparse(x) for x in outer.generators[0].target.elts]
                inner = outer.elt
                if isinstance(inner, ast.ListComp) and len(inner.generators) == 1 and isinstance(inner.generators[0].target, ast.Name) \
                        and ast.unparse(inner.generators[0].iter) == ev_v:
                    x_v = inner.generators[0].target.id
                    shape = ast.unparse(inner.elt).replace(x_v, "E").replace(tag_v, "TAG")
                    if inner.generators[0].ifs:
                        shape += " only if " + " and ".join(ast.unparse(c).replace(x_v, "E") for c in inner.generators[0].ifs)  # events are filtered: a definite deviation
                    src_ = outer.generators[0].iter
                    pairs_name = src_
        if shape is None and isinstance(it, ast.Call) and callee_name_text(it).endswith("merge") and (it.keywords or len(it.args) != 1):
            shape = "merge with " + ", ".join(["%d positional argument(s)" % len(it.args)] + [f"{k.arg}=..." for k in it.keywords if k.arg])  # a definite deviation
        streams.add(shape or ("? " + ast.unparse(it)[:160]))
        if pairs_name is not None:
            items = None
            if isinstance(pairs_name, ast.Name):
                items = list_items(s_, pairs_name.id)
            elif isinstance(pairs_name, (ast.List, ast.Tuple)):
                items = [("splice", x.value) if isinstance(x, ast.Starred) else ("elem", x) for x in pairs_name.elts]
            if items is not None:
                prs, stars = [], []
                for k, x in items:
                    if k == "splice":
                        stars.append(ast.unparse(closed(s_, x, i)))
                        continue
                    x = closed(s_, x, i)
                    if isinstance(x, ast.Tuple) and len(x.elts) == 2:
                        t = try_ev(ctx, f, x.elts[1])
                        prs.append((ast.unparse(x.elts[0]), t.name if isinstance(t, EnumVal) else ast.unparse(x.elts[1])))
                    else:
                        prs.append((ast.unparse(x), "?"))
                pair_sets.append(sorted(prs))
                starred_sets.append(stars)
    ctx.expect("R-TABLE", f, "the timeline starts at beat 0, time -offset, first BPM, outside any warp", inits == {INIT}, "", f"the state machine is initialised with {sorted(inits)}", node=f.node)
    # a path on which the list of lists stayed empty (its building loop did not run) shows nothing; the paths on which it ran are judged
    recognised = {x for x in streams if not x.startswith("? ")}
    if recognised:
        streams = {x for x in streams if not (x.startswith("? merge(*") and x[len("? merge(*"):-1] in unresolved_names)} or streams
    if any(x.startswith("? ") for x in streams):
        raise AnalysisError(f"{f.fq}: the merged event stream has a shape that is not recognised: {sorted(streams)}")
    ctx.expect("R-REBUILD", f, "a tagged event keeps the event's beat and value and takes the list's tag; the per-kind lists are merged by TaggedEvent order (heapq.merge, no key / reverse)",
               streams == {"TaggedEvent(beat=E.beat, value=E.value, tag=TAG)"}, str(sorted(streams)), f"the merged stream is built from {sorted(streams)}", node=f.node)
    spec = sorted([(f"{sn}.timing_data.bpms[1:]", "BPM"), (f"{sn}.timing_data.delays", "DELAY"), (f"{sn}.timing_data.delays", "DELAY_END"),
                   (f"{sn}.timing_data.stops", "STOP"), (f"{sn}.timing_data.stops", "STOP_END")])
    if not pair_sets:
        raise AnalysisError(f"{f.fq}: the list of (events, tag) pairs is not recognised (merged stream: {sorted(streams)})")
    ctx.expect("R-TABLE", f, "event lists are paired with their tags (bpms[1:]/BPM, delays/DELAY+DELAY_END, stops/STOP+STOP_END)", all(ps == spec for ps in pair_sets), str(pair_sets[0]),
               f"pairs are {pair_sets[0]}; expected {spec}", node=f.node)
    ctx.expect("R-TABLE", f, "coalesced warps are part of the event stream", all(st == [f"{sn}._coalesce_warps()"] for st in starred_sets), str(starred_sets[0]), f"starred: {starred_sets[0]}", node=f.node)
    warp_union(ctx)
    ctx.expect("R-ORDER", f, "every merged event advances the state machine, in merge order", bodies == {(f"{sn}._state_machine.advance(EVENT)",)}, str(sorted(bodies)),
               f"per merged event the loop does {sorted(bodies)}", node=f.node)
    # first BPM must sit on beat 0
    refused = [s_ for s_ in fsums if s_.end == "raise"]
    okf = bool(refused) and all(dict(s_.plain_assign()).get(_ck(FIRST0)) is False for s_ in refused) and all(dict(s_.plain_assign()).get(_ck(FIRST0)) is True for s_ in ok_paths) \
        and all(terminal_text(s_) == "raise ValueError" for s_ in refused)
    ctx.expect("R-TABLE", f, "timing data whose first BPM is not on beat 0 is refused", okf, "", f"refusing paths: {[dict(s_.plain_assign()) for s_ in refused]}", node=f.node)


# ---------------------------------------------------------------------------
# R-BISECT


def bisect_rule(ctx: Ctx, method: str, list_attr: str) -> None:
    p = ctx.p
    f = p.func(f"{TE}.{method}")
    rt = p.func(f"{TE}._retime_events")
    sn = f.param_names()[0]
    te = p.cls(f"{ENG}.TaggedEvent")
    kappa = _lex_key(ctx, te)
    require(kappa is not None, "TaggedEvent.__lt__ is not a recognised lexicographic comparison")
    bs = [c for c in calls(f) if callee_name(ctx, f, c) in ("bisect.bisect", "bisect.bisect_right", "bisect.bisect_left")]
    b = one(bs, f"bisect call in {f.fq}")
    lst = inline(b.args[0], f)
    require(self_attr(lst, sn) == list_attr, f"{f.fq}: bisect searches {src(lst)}, expected self.{list_attr}")
    # construction of the list
    stores = [n for n in body_walk(rt.node) if isinstance(n, ast.Assign) and len(n.targets) == 1 and self_attr(n.targets[0], rt.param_names()[0]) == list_attr]
    st = one(stores, f"construction of self.{list_attr} in {rt.fq}")
    v = st.value
    # the stored value as a closed form (temporaries resolved, map / loop / comprehension spellings canonical)
    from .tables import closed as _closed_b, sums_of as _tsums_b
    forms_b = {}
    for s_ in _tsums_b(ctx, rt):
        for i_, e_ in enumerate(s_.effects):
            if e_.kind == "store" and ast.unparse(e_.target) == f"{rt.param_names()[0]}.{list_attr}":
                c_ = _closed_b(s_, e_.value, i_)
                forms_b[ast.unparse(c_)] = c_
    if len(forms_b) == 1:
        v = next(iter(forms_b.values()))
    proj = None
    seq = None
    if isinstance(v, ast.Call) and isinstance(v.func, ast.Name) and v.func.id == "list" and len(v.args) == 1:
        v = v.args[0]
    if isinstance(v, ast.Call) and isinstance(v.func, ast.Name) and v.func.id == "map" and len(v.args) == 2 and isinstance(v.args[0], ast.Lambda):
        lam = v.args[0]
        seq = v.args[1]
        if isinstance(lam.body, ast.Tuple):
            proj = [e.attr if isinstance(e, ast.Attribute) else src(e) for e in lam.body.elts]
    elif isinstance(v, ast.ListComp) and isinstance(v.elt, ast.Tuple) and len(v.generators) == 1:
        proj = [e.attr if isinstance(e, ast.Attribute) else src(e) for e in v.elt.elts]
        seq = v.generators[0].iter
    require(proj is not None, f"{rt.fq}: construction of self.{list_attr} has an unrecognised shape: {src(v)}")
    seq = inline(seq, rt)
    if isinstance(seq, ast.Call) and isinstance(seq.func, ast.Name) and seq.func.id == "cast" and len(seq.args) == 2:
        seq = seq.args[1]
    from_sm = self_attr(seq, rt.param_names()[0]) == "_state_machine"
    sorted_after = any(isinstance(c, ast.Call) and ((isinstance(c.func, ast.Attribute) and c.func.attr == "sort" and self_attr(c.func.value, rt.param_names()[0]) == list_attr))
                       for c in calls(rt)) or (isinstance(st.value, ast.Call) and isinstance(st.value.func, ast.Name) and st.value.func.id == "sorted")
    construct = f"bisect(self.{list_attr})"
    if sorted_after:
        ctx.ok("R-BISECT", f, construct, "the list is explicitly sorted after construction", node=b)
    else:
        good = from_sm and proj == kappa
        ctx.expect("R-BISECT", f, construct, good, f"projection {proj} == build order {kappa}",
                   f"self.{list_attr} is the projection {proj} of the state sequence, which is built in TaggedEvent order {kappa} (heapq.merge); "
                   f"'{proj[0]}' is only weakly monotone in that order, so entries with equal {proj[0]} carry tags out of order and bisect's sortedness "
                   f"precondition is not established (e.g. a stop on a warp's first beat)", node=b)
    # the list holds the states' own values, unchanged (a rounded or converted copy orders differently from the states themselves)
    raw_elts = (v.args[0].body.elts if (isinstance(v, ast.Call) and isinstance(v.func, ast.Name) and v.func.id == "map") else v.elt.elts)
    exact = all(isinstance(e, ast.Attribute) and isinstance(e.value, ast.Attribute) and e.value.attr == "event" and isinstance(e.value.value, ast.Name) for e in raw_elts)
    ctx.expect("R-BISECT", f, f"self.{list_attr} holds the states' own ({', '.join(proj)}) values unchanged", exact, "", f"the list is built from {[src(e, 50) for e in raw_elts]}: "
               "a rounded / converted copy does not order the same way as the states it indexes, so the state found is not the one in force", node=st)
    # the search key has the same shape as the projection, and its first element is what the caller asked about, unchanged
    key = inline(b.args[1], f)
    okk = isinstance(key, ast.Tuple) and len(key.elts) == len(proj)
    ctx.expect("R-BISECT", f, f"search key of {construct} is a ({', '.join(proj)}) pair", okk, src(key), f"key is {src(key)}", node=b)
    if okk:
        asked = f.param_names()[1]
        k0 = key.elts[0]
        same = isinstance(k0, ast.Name) and k0.id == asked and locals_of(f).only_param(asked)
        ctx.expect("R-BISECT", f, f"the {method} search uses the asked {asked} itself", same, src(k0), f"the key's first element is {src(k0)}"
                   + ("" if locals_of(f).only_param(asked) else f" and '{asked}' is re-bound before the search") + ": the list holds the states' own values, so a shifted or converted key finds another state", node=b)
    # index idiom: max(0, bisect(...) - 1), then self._state_machine[index]
    par = parent(f, b)
    idx_ok = isinstance(par, ast.BinOp) and isinstance(par.op, ast.Sub) and try_ev(ctx, f, par.right) == 1
    mx = parent(f, par) if idx_ok else None
    idx_ok = idx_ok and isinstance(mx, ast.Call) and isinstance(mx.func, ast.Name) and mx.func.id == "max" and len(mx.args) == 2 and any(try_ev(ctx, f, a) == 0 for a in mx.args)
    ctx.expect("R-BISECT", f, f"prior state index is max(0, bisect - 1) ({method})", bool(idx_ok), "", "the 'state at or before' index idiom changed", node=b)
    subs = [n for n in body_walk(f.node) if isinstance(n, ast.Subscript) and self_attr(n.value, sn) == "_state_machine"]
    oks = len(subs) == 1 and idx_ok and ast.unparse(inline(subs[0].slice, f)) == ast.unparse(inline(mx, f))
    ctx.expect("R-BISECT", f, f"the state is looked up in the sequence the list was projected from ({method})", oks, "", "", node=b)


def bisect_census(ctx: Ctx) -> None:
    n = 0
    for f in ctx.p.nontest_functions():
        for c in calls(f):
            if callee_name(ctx, f, c).startswith("bisect."):
                n += 1
                if not f.fq.startswith(TE):
                    ctx.observe("R-BISECT", f, f"bisect call outside the timing engine: {src(c, 60)}", "", node=c)
    ctx.floor("bisect call sites", n, 4)
    te = ctx.p.cls(f"{ENG}.TaggedEvent")
    ctx.observe("R-BISECT", te, "seed state (Beat(0), BPM) precedes the merged events",
                "it can be out of (beat, tag) order only with a WARP/WARP_END on beat 0; both candidate prior states then give the same time, hittability and BPM (triaged by reading)")


# ---------------------------------------------------------------------------
# R-DIM


def _env_for(ctx: Ctx, f: FunctionInfo, table: Dict[str, Any], value_unit: Any = None):
    loc = locals_of(f)

    def env(e: ast.expr):
        s = ast.unparse(e)
        if s in table:
            return table[s]
        if s.endswith(".event.value") or s.endswith("event.value"):
            return value_unit
        if isinstance(e, ast.Name):
            bs = loc.b.get(e.id, [])
            vals = [b.value for b in bs if b.kind == "assign" and b.value is not None]
            if vals and len(vals) == len(bs):
                us = []
                for v in vals:
                    us.append(D.dim(v, env))
                us = [u for u in us if u != D.ANY]
                if not us:
                    return D.ANY
                if all(u == us[0] for u in us):
                    return us[0]
                raise D.DimError(f"'{e.id}' holds {', '.join(D.show(u) for u in us)}")
        return None

    return env


def dims_time(ctx: Ctx) -> None:
    """C11.4: beats*60/bpm is seconds; a pause length is added only under the {STOP, DELAY} x {STOP_END, DELAY_END} guard."""
    p = ctx.p
    f = p.func(f"{ENG}:TimingState.time_until")
    sn, beat, tagp = f.param_names()
    table = {beat: D.BEAT, f"{sn}.event.beat": D.BEAT, f"{sn}.bpm": D.BPM, f"{sn}.event.time": D.SEC}
    # the returned time, per path: 0 inside a warp, else (asked beat - state's beat) * 60 / bpm seconds; plus the pause length exactly under the
    # {STOP, DELAY} x {STOP_END, DELAY_END} guard
    from .tables import Dec, judge as tjudge, sums_of as tsums
    W = f"{sn}.warp"
    ST, QT = f"{sn}.event.tag in (EventTag.DELAY, EventTag.STOP)", f"{tagp} in (EventTag.DELAY_END, EventTag.STOP_END)"
    PAUSE = f"float({sn}.event.value)"

    def terms(e):
        if isinstance(e, ast.BinOp) and isinstance(e.op, ast.Add):
            return terms(e.left) + terms(e.right)
        return [e]

    def out(s_):
        k, v = s_.terminal()
        if k != "return" or v is None:
            return (k, False)
        ts = terms(v)
        pause = [t for t in ts if ast.unparse(t) == PAUSE]
        rest = [t for t in ts if ast.unparse(t) != PAUSE]
        if len(pause) > 1 or len(rest) != 1:
            return ("other: " + ast.unparse(v), bool(pause))
        b_ = rest[0]
        if isinstance(b_, ast.Constant) and b_.value == 0:
            return ("zero", bool(pause))
        try:
            u = D.dim(b_, _env_for(ctx, f, table))
        except D.DimError as e_:
            return (f"not seconds: {ast.unparse(b_)} ({e_})", bool(pause))
        okb = any(ast.unparse(x) == f"{beat} - {sn}.event.beat" for x in ast.walk(b_))
        if u in (D.SEC,) and okb:
            return ("beats*60/bpm", bool(pause))
        return (f"not (asked beat - state's beat) * 60 / bpm in seconds: {ast.unparse(b_)} [{D.show(u)}]", bool(pause))

    sums = tsums(ctx, f)
    decs = [Dec(dict(s_.plain_assign()), out(s_), s_) for s_ in sums]
    tjudge(ctx, "R-DIM", f, "no time elapses inside a warp; otherwise elapsed time = (asked beat - state's beat) * 60 / bpm, in seconds; the pause length float(event.value) is added exactly for "
           "state tag in {STOP, DELAY} and asked tag in {STOP_END, DELAY_END}", decs, [W, ST, QT], lambda a_: ("zero" if a_[W] else "beats*60/bpm", bool(a_[ST] and a_[QT])),
           why="seconds = beats * 60 / (beats per minute); a stop or delay lasts from its start event to its end event")
    ctx.floor("paths through time_until", len(decs), 1)
    # advance: one new state per event - the event's beat, value and tag, its time = last state's time + elapsed seconds measured from the last
    # state to (event.beat, event.tag); the BPM changes exactly on a BPM event, the warp flag is set on WARP and cleared on WARP_END
    a = p.func(f"{ENG}:TimingStateMachine.advance")
    asn, evp = a.param_names()
    from .tables import closed_text as _ct
    from ..decide import IGNORE as _IGN
    asums = tsums(ctx, a)
    Bq, Wq, WEq = f"{evp}.tag == EventTag.BPM", f"{evp}.tag == EventTag.WARP", f"{evp}.tag == EventTag.WARP_END"
    TIMEX = OneOfS(f"SongTime({asn}.last.event.time + {asn}.last.time_until({evp}.beat, {evp}.tag))", f"SongTime({asn}.last.time_until({evp}.beat, {evp}.tag) + {asn}.last.event.time)")

    def aspec(a_):
        if sum(1 for x in (a_[Bq], a_[Wq], a_[WEq]) if x) > 1:
            return _IGN
        bpm = f"{evp}.value" if a_[Bq] else f"{asn}.last.bpm"
        warp = "True" if a_[Wq] else ("False" if a_[WEq] else f"{asn}.last.warp")
        return tuple([OneOfS(*[f"{asn}.append(TimingState(event=TimedEvent(beat={evp}.beat, value={evp}.value, tag={evp}.tag, time={t}), bpm={bpm}, warp={warp}))" for t in TIMEX.alts])])

    adecs = [Dec(dict(s_.plain_assign()), tuple(_ct(s_, e, keep=[asn, evp]) for e in s_.effects if e.kind in ("expr", "store", "aug", "delete", "return", "raise") and not (e.kind == "return" and e.value is None)), s_)
             for s_ in asums]
    tjudge(ctx, "R-REBUILD", a, "the new state records the event's beat, value and tag, time = last state's time + last.time_until(event.beat, event.tag); bpm becomes event.value exactly on a BPM event, "
           "warp becomes True exactly on WARP and False exactly on WARP_END, both carry over otherwise; the state is appended on every path", adecs, [Bq, Wq, WEq], aspec,
           why="the timeline is the fold of the events over (time, bpm, warp)")
    # time_at
    ta = p.func(f"{TE}.time_at")
    rr = [r_ for r_ in body_walk(ta.node) if isinstance(r_, ast.Return)]
    okr = len(rr) == 1 and ast.unparse(rr[0].value) == "SongTime(prior_state.event.time + prior_state.time_until(beat, event_tag))"
    if not okr and len(rr) == 1:
        v = rr[0].value
        inner = v.args[0] if isinstance(v, ast.Call) and v.args else v
        if isinstance(inner, ast.BinOp) and isinstance(inner.op, ast.Add):
            parts = sorted([ast.unparse(inner.left), ast.unparse(inner.right)])
            okr = len(parts) == 2 and any(x.endswith(".event.time") for x in parts) and any(re.fullmatch(r"(\w+)\.time_until\(beat, event_tag\)", x) for x in parts) \
                and parts[0].split(".")[0] == parts[1].split(".")[0]
    ctx.expect("R-DIM", ta, "time_at = prior state's time + its time_until(beat, tag)", okr, "", f"{src(rr[0].value) if rr else ''}", node=ta.node)
    # bpm_at
    ba = p.func(f"{TE}.bpm_at")
    rr = [r_ for r_ in body_walk(ba.node) if isinstance(r_, ast.Return)]
    kinds = sorted(ast.unparse(r_.value) for r_ in rr)
    okb = len(rr) == 2 and any(x.endswith(".bpm") for x in kinds)
    keyb = _search_keys(ctx, ba)
    tagok = len(keyb) == 1 and isinstance(try_ev(ctx, ba, keyb[0].value.elts[1]), EnumVal) and try_ev(ctx, ba, keyb[0].value.elts[1]).name == "BPM"
    ctx.expect("R-TABLE", ba, "bpm_at returns the prior state's BPM, searching with the BPM tag (a change on the asked beat counts)", okb and tagok, str(kinds), f"returns {kinds}", node=ba.node)
    neg = [r_ for r_ in rr if any(pol and isinstance(a_, ast.Compare) and isinstance(a_.ops[0], ast.Lt) and try_ev(ctx, ba, a_.comparators[0]) == 0 for a_, pol in facts(ctx, ba, r_))]
    ctx.expect("R-TABLE", ba, "before beat 0 the first BPM applies", len(neg) == 1 and "bpms[0].value" in ast.unparse(neg[0].value), "", "", node=ba.node)


def dims_beat(ctx: Ctx) -> None:
    """C12.2: seconds/60*bpm is beats, rounded to the tick by Beat(float); zero beats during a pause."""
    p = ctx.p
    f = p.func(f"{ENG}:TimingState.beats_until")
    sn, tp = f.param_names()
    table = {tp: D.SEC, f"{sn}.event.time": D.SEC, f"{sn}.bpm": D.BPM, f"{sn}.event.beat": D.BEAT}
    rets = [r for r in body_walk(f.node) if isinstance(r, ast.Return)]
    ctx.floor("returns of beats_until", len(rets), 2)
    for r in rets:
        fs = facts(ctx, f, r)
        st = [s for a, pol in fs if pol for s in [_membership(ctx, f, a, f"{sn}.event.tag")] if s]
        neg = [s for a, pol in fs if not pol for s in [_membership(ctx, f, a, f"{sn}.event.tag")] if s]
        if ast.unparse(r.value) == "Beat(0)":
            ctx.expect("R-TABLE", f, "no beat elapses while the state is a STOP or DELAY", st == [{"STOP", "DELAY"}], unparse_facts(fs), f"zero beats returned under {unparse_facts(fs)}", node=r)
        else:
            try:
                u = D.dim(r.value, _env_for(ctx, f, table))
                ok, detail = u == D.BEAT, D.show(u)
            except D.DimError as e:
                ok, detail = False, str(e)
            ctx.expect("R-DIM", f, "beats elapsed = seconds / 60 * bpm is in beats", ok, detail, f"{src(inline(r.value, f))}: {detail}", node=r)
            wrapped = isinstance(r.value, ast.Call) and callee_name(ctx, f, r.value) == "simfile.timing.Beat" and len(r.value.args) == 1
            arg0 = inline(r.value.args[0], f) if wrapped else None
            exact_wrapper = isinstance(arg0, ast.Call) and isinstance(arg0.func, ast.Name) and arg0.func.id in ("Fraction", "Decimal", "int", "round", "str", "Beat")
            isfloat = wrapped and not exact_wrapper and any(isinstance(x, ast.Call) and isinstance(x.func, ast.Name) and x.func.id == "float" for x in ast.walk(arg0))
            ctx.expect("R-DIM", f, "the result is snapped to the tick grid (Beat of a float)", bool(wrapped and isfloat), "", f"{src(r.value)}", node=r)
            ctx.expect("R-TABLE", f, "beats are extrapolated only outside pauses", neg == [{"STOP", "DELAY"}] or not fs, unparse_facts(fs), "", node=r)
            oke = any(ast.unparse(x) == f"{tp} - {sn}.event.time" for x in ast.walk(inline(r.value, f)))
            ctx.expect("R-DIM", f, "seconds elapsed = asked time - state's time", oke, "", f"{src(inline(r.value, f))}", node=r)
    ba = p.func(f"{TE}.beat_at")
    rr = [r_ for r_ in body_walk(ba.node) if isinstance(r_, ast.Return)]
    okr = False
    if len(rr) == 1:
        v = rr[0].value
        if isinstance(v, ast.Call) and isinstance(v.func, ast.Name) and v.func.id == "cast":
            v = v.args[1]
        v = inline(v, ba)
        from ..pat import match as _m
        tparam = ba.param_names()[1]
        m1 = _m("$a.event.beat + $a.beats_until($t)", v) or _m("$a.beats_until($t) + $a.event.beat", v)
        okr = m1 is not None and ast.unparse(m1["t"]) == tparam and isinstance(m1["a"], ast.Subscript) and self_attr(m1["a"].value, ba.param_names()[0]) == "_state_machine"
    ctx.expect("R-DIM", ba, "beat_at = prior state's beat + its beats_until(time)", okr, "", f"{src(rr[0].value) if rr else ''}", node=ba.node)


# ---------------------------------------------------------------------------
# C13 hittable


class _Key:
    def __init__(self, value, node):
        self.value, self.node = value, node


def _search_keys(ctx: Ctx, f: FunctionInfo):
    """The (what, tag) pairs a lookup searches with: a local bound to a 2-tuple, or the 2-tuple written as the second argument of bisect*()."""
    out = [_Key(b.value, b.node) for bs in locals_of(f).b.values() for b in bs if b.kind == "assign" and isinstance(b.value, ast.Tuple) and len(b.value.elts) == 2]
    if out:
        return out
    for c in body_walk(f.node):
        if isinstance(c, ast.Call) and (ast.unparse(c.func).split(".")[-1] in ("bisect", "bisect_left", "bisect_right")) and len(c.args) >= 2:
            v = inline(c.args[1], f)
            if isinstance(v, ast.Tuple) and len(v.elts) == 2:
                out.append(_Key(v, c))
    return out


def hittable_rule(ctx: Ctx) -> None:
    p = ctx.p
    f = p.func(f"{TE}.hittable")
    sn, beat = f.param_names()
    tags = p.enum_members(p.cls(f"{ENG}.EventTag"))
    top = max(tags.values(), key=lambda m: m.value).name
    keyb = _search_keys(ctx, f)
    kb = one(keyb, f"search key in {f.fq}")
    tv = try_ev(ctx, f, kb.value.elts[1])
    ctx.expect("R-TABLE", f, "hittable looks at the whole beat: the search tag is the greatest EventTag", isinstance(tv, EnumVal) and tv.name == top and ast.unparse(kb.value.elts[0]) == beat,
               str(tv), f"search key is {src(kb.value)}; every event on the beat must count, i.e. tag {top}", node=kb.node)
    st = None
    for name, bs in locals_of(f).b.items():
        for b in bs:
            if b.kind == "assign" and isinstance(b.value, ast.Subscript) and self_attr(b.value.value, sn) == "_state_machine":
                st = name
    require(st is not None, f"{f.fq}: prior state local not found")
    from ..decide import decisions, judge_table, key as _k
    decs = decisions(ctx, f, stop=[st])
    keys = set()
    for d in decs:
        keys.update(d.assign)
    warp = f"{st}.warp"
    same = _k(f"{beat} == {st}.event.beat")
    members = [k for k in keys if k.startswith(f"{st}.event.tag in ")]
    oks = False
    if len(members) == 1:
        tset = _tag_set(ctx, f, ast.parse(members[0], mode="eval").body.comparators[0])
        oks = tset == {"STOP_END", "DELAY_END"}
        ctx.expect("R-TABLE", f, "the stop/delay exception looks for a STOP_END or DELAY_END state", oks, str(tset), f"exception set is {tset}; a stop or delay that has been passed on this beat is a STOP_END / DELAY_END state", node=f.node)
    if len(members) != 1 or not oks:
        if len(members) != 1:
            raise AnalysisError(f"{f.fq}: the stop/delay exception test is not recognised (found {members})")
        return

    def outcome(d):
        k, v = d.terminal()
        c = try_ev(ctx, f, v) if v is not None else None
        return c if k == "return" and isinstance(c, bool) else f"{k} {src(v) if v is not None else ''}"

    judge_table(ctx, "R-TABLE", f, "unhittable exactly inside a warp with no stop or delay passed on that same beat", decs, [warp, members[0], same],
                lambda a: True if (not a[warp]) or (a[members[0]] and a[same]) else False, outcome)


# ---------------------------------------------------------------------------
# C14 Beat


OPS_LIST = ["__add__", "__radd__", "__sub__", "__rsub__", "__mul__", "__rmul__", "__truediv__", "__rtruediv__", "__mod__", "__rmod__",
            "__divmod__", "__rdivmod__", "__neg__", "__pos__", "__abs__"]


def beat_ops(ctx: Ctx) -> None:
    p = ctx.p
    ci = p.cls("simfile.timing.Beat")
    ctx.expect("R-OPS", ci, "Beat derives from fractions.Fraction", [b.name if isinstance(b, External) else b.fq for b in ci.bases] == ["fractions.Fraction"], "", "", node=ci.node)
    fr = set(fraction_dunders())
    for op in OPS_LIST:
        require(op in fr, f"fractions.Fraction no longer defines {op}")
        m = ci.methods.get(op)
        if m is None:
            ctx.bad("R-OPS", ci, f"{op} is overridden", f"Beat inherits {op} from Fraction: the result is a plain Fraction, not a Beat", node=ci.node)
            continue
        ps = m.param_names()
        body = [s for s in m.node.body if not (isinstance(s, ast.Expr) and isinstance(s.value, ast.Constant))]
        operand = ps[1:] if len(ps) > 1 else []
        sup = f"super().{op}({', '.join(operand)})"
        ok = False
        if "divmod" in op:
            if len(body) == 2 and isinstance(body[0], ast.Assign) and isinstance(body[0].targets[0], ast.Tuple) and len(body[0].targets[0].elts) == 2 \
                    and ast.unparse(body[0].value) == sup and isinstance(body[1], ast.Return) and isinstance(body[1].value, ast.Tuple):
                q, r = [e.id for e in body[0].targets[0].elts]
                ok = [ast.unparse(e) for e in body[1].value.elts] == [q, f"Beat({r})"]
        else:
            ok = len(body) == 1 and isinstance(body[0], ast.Return) and ast.unparse(body[0].value) == f"Beat({sup})"
        ctx.expect("R-OPS", ci, f"{op} delegates to Fraction.{op} with the same operand and wraps the result in Beat", ok, "",
                   f"body is: {'; '.join(ast.unparse(s) for s in body)} - expected 'return Beat({sup})'", node=m.node)


def beat_construction(ctx: Ctx) -> None:
    p = ctx.p
    ci = p.cls("simfile.timing.Beat")
    sub = p.const("simfile.timing", "BEAT_SUBDIVISION")
    ctx.expect("R-TABLE", ("simfile.timing", ""), "BEAT_SUBDIVISION == 48 (192 per measure / 4)", sub == 48 and p.const("simfile.timing", "MEASURE_SUBDIVISION") == 192, str(sub), f"BEAT_SUBDIVISION is {sub}")
    new = ci.methods.get("__new__")
    require(new is not None, "Beat.__new__ not found")
    ps = new.param_names()
    require(len(ps) == 3, "Beat.__new__ signature changed")
    cls_, num, den = ps
    from ..decide import decisions, judge_table, IGNORE
    from ..pat import match as _pm
    loc = locals_of(new)
    selfn = [n for n, bs in loc.b.items() for b in bs if b.kind == "assign" and ast.unparse(b.value) == f"super().__new__({cls_}, {num}, {den})"]
    require(len(selfn) == 1, "Beat.__new__: the Fraction is not built by super().__new__(cls, numerator, denominator)")
    sn = selfn[0]

    def outcome(d):
        k, v = d.terminal()
        if k == "return" and isinstance(v, ast.Name) and v.id == sn:
            return "exact"
        if k == "return" and v is not None and ast.unparse(v) == f"{sn}.round_to_tick()":
            return "snapped"
        return f"{k} {src(v) if v is not None else ''}"

    judge_table(ctx, "R-TABLE", new, "a numerator/denominator pair or a Rational is kept exactly; anything else (float, Decimal, string) is snapped to the tick",
                decisions(ctx, new, stop=[sn]), [den, f"isinstance({num}, Rational)"],
                lambda a: "exact" if (a[den] or a[f"isinstance({num}, Rational)"]) else "snapped", outcome)
    rt = ci.methods.get("round_to_tick")
    rr = [r for r in body_walk(rt.node) if isinstance(r, ast.Return)] if rt else []
    s = rt.param_names()[0] if rt else "self"
    from ..flow import inline as _inl
    okr = len(rr) == 1 and ast.unparse(_inl(rr[0].value, rt)) in (f"Beat(int(round({s} * BEAT_SUBDIVISION)), BEAT_SUBDIVISION)", f"Beat(round({s} * BEAT_SUBDIVISION), BEAT_SUBDIVISION)")
    ctx.expect("R-POLY", ci, "round_to_tick is round(self * 48) / 48", okr, "", f"{src(rr[0].value) if rr else ''}", node=rt.node if rt else ci.node)
    tk = ci.methods.get("tick")
    rr = [r for r in body_walk(tk.node) if isinstance(r, ast.Return)] if tk else []
    ctx.expect("R-TABLE", ci, "tick() is 1/48", len(rr) == 1 and ast.unparse(rr[0].value) in ("cls(1, BEAT_SUBDIVISION)", "Beat(1, BEAT_SUBDIVISION)"), "", "", node=tk.node if tk else ci.node)
    fs_ = ci.methods.get("from_str")
    rr = [r for r in body_walk(fs_.node) if isinstance(r, ast.Return)] if fs_ else []
    arg = fs_.param_names()[1] if fs_ else ""
    ctx.expect("R-TABLE", ci, "from_str rounds to the nearest tick", len(rr) == 1 and ast.unparse(rr[0].value) in (f"Beat({arg}).round_to_tick()", f"cls({arg}).round_to_tick()", f"Beat({arg})", f"cls({arg})"),
               "", f"{src(rr[0].value) if rr else ''}", node=fs_.node if fs_ else ci.node)
    # __str__: fixed-point with p decimals, 10^-p/2 < 1/(2*48)
    st = ci.methods.get("__str__")
    rr = [r for r in body_walk(st.node) if isinstance(r, ast.Return)] if st else []
    prec = None
    if len(rr) == 1 and isinstance(rr[0].value, ast.JoinedStr) and len(rr[0].value.values) == 1 and isinstance(rr[0].value.values[0], ast.FormattedValue):
        fv = rr[0].value.values[0]
        spec = ast.unparse(fv.format_spec)[2:-1] if fv.format_spec is not None else ""
        m = re.fullmatch(r"\.(\d+)f", spec)
        if m and ast.unparse(fv.value) == f"float({st.param_names()[0]})":
            prec = int(m.group(1))
    ok = prec is not None and (10 ** -prec) / 2 < 1 / (2 * sub)
    ctx.expect("R-POLY", ci, "the text form is injective on the tick grid: 10^-p/2 < 1/(2*BEAT_SUBDIVISION)", ok, f"p={prec}", f"format precision {prec}: two ticks could print alike or read back as a neighbour", node=st.node if st else ci.node)


def beatvalues_codec(ctx: Ctx, judge_source: bool = True) -> None:
    p = ctx.p
    ci = p.cls("simfile.timing.BeatValues")
    st = ci.methods["__str__"]
    rr = [r for r in body_walk(st.node) if isinstance(r, ast.Return)]
    okw = False
    if len(rr) == 1 and isinstance(rr[0].value, ast.Call) and isinstance(rr[0].value.func, ast.Attribute) and rr[0].value.func.attr == "join":
        from ..flow import inline as _inl2
        sep = try_ev(ctx, st, rr[0].value.func.value)
        ge = _inl2(rr[0].value.args[0], st) if rr[0].value.args else None
        if isinstance(ge, ast.ListComp):
            ge = ast.GeneratorExp(elt=ge.elt, generators=ge.generators)  # join consumes either completely, in order
        if isinstance(sep, str) and isinstance(ge, ast.GeneratorExp) and len(ge.generators) == 1 and not ge.generators[0].ifs and isinstance(ge.elt, ast.JoinedStr):
            v = ge.generators[0].target.id
            parts = [x.value if isinstance(x, ast.Constant) else "{" + ast.unparse(x.value) + ("" if (x.format_spec is None and x.conversion in (-1, 115)) else ":<format>") + "}" for x in ge.elt.values]
            okw = sep.strip() == "," and sep.startswith(",") and parts == ["{" + v + ".beat}", "=", "{" + v + ".value}"] and ast.unparse(ge.generators[0].iter) == st.param_names()[0]
    ctx.expect("R-TABLE", st, "rows are written beat=value joined by ',' + whitespace", okw, "", f"{src(rr[0].value) if rr else ''}", node=st.node)
    fs_ = ci.methods["from_str"]
    sp = fs_.param_names()[1]
    from .tables import closed_text, function_decs, judge as tjudge, loop_decs, sums_of as tsums, touches
    sums = tsums(ctx, fs_)
    insts = {e.target.id for s_ in sums for e in s_.effects if e.kind == "bind" and isinstance(e.target, ast.Name) and e.value is not None and ast.unparse(e.value) == f"{fs_.param_names()[0]}()"}
    rets = {ast.unparse(s_.terminal()[1]) if s_.terminal()[1] is not None else s_.terminal()[0] for s_ in sums}
    require(len(insts) == 1, f"{fs_.fq}: expected one local holding cls(), found {sorted(insts)}")
    inst = next(iter(insts))
    ctx.expect("R-TABLE", fs_, "from_str returns the list it filled", rets == {inst}, str(sorted(rets)), f"returns {sorted(rets)}", node=fs_.node)
    loops = {(ast.unparse(e.target), e.line, ast.unparse(e.value)) for s_ in sums for e in s_.effects if e.kind == "for"}
    rows = [l for l in loops if l[2] == f"{sp}.split(',')"]
    ctx.expect("R-TABLE", fs_, "the rows are the ','-separated pieces of the string", len(rows) == 1 and len(loops) == 1, str(sorted(loops)), f"loops: {sorted(loops)}", node=fs_.node)
    if len(rows) == 1 and len(loops) == 1:
        rv, line, _ = rows[0]
        want = f"{inst}.append(BeatValue(beat=Beat.from_str({rv}.strip().split('=')[0]), value=Decimal({rv}.strip().split('=')[1])))"
        decs = []
        from .tables import Dec
        for s_ in sums:
            if any(e.kind == "for" and e.line == line for e in s_.effects):
                decs.append(Dec(dict(s_.atoms_in(line)), tuple(closed_text(s_, e, keep=[inst]) for e in s_.effects if line in e.loops and touches(e, [inst]) and e.kind != "bind"), s_))
        tjudge(ctx, "R-ORDER", fs_, "every row 'beat=value' is stripped, split on '=' and appended in order: beat via Beat.from_str, value as an exact Decimal (no float on the value path)", decs, [],
               lambda a: (want,), why="each row of the text must become one BeatValue, in text order")
        A, Bk = sp, f"{sp}.strip()"
        fdecs = function_decs(sums, lambda s_: "rows" if any(e.kind == "for" for e in s_.effects) else "empty")
        tjudge(ctx, "R-TABLE", fs_, "an absent or blank string is the empty list; anything else is parsed", fdecs, [A, Bk], lambda a: "rows" if (a[A] and a[Bk]) else "empty")
    timingdata_fields(ctx, judge_source)


def timingdata_fields(ctx: Ctx, judge_source: bool = True) -> None:
    p = ctx.p
    td = p.func("simfile.timing:TimingData.__init__")
    sn = td.param_names()[0]
    srcs = [b for bs in locals_of(td).b.values() for b in bs if b.kind == "assign" and isinstance(b.value, ast.Call) and callee_name(ctx, td, b.value).endswith("timing_source")]
    sb = one(srcs, f"timing_source call in {td.fq}")
    x = [n for n, bs in locals_of(td).b.items() if sb in bs][0]
    got = {}
    for node in body_walk(td.node):
        if isinstance(node, ast.Assign) and self_attr(node.targets[0], sn):
            got[self_attr(node.targets[0], sn)] = ast.unparse(node.value)
    want = {"bpms": f"BeatValues.from_str({x}.bpms)", "stops": f"BeatValues.from_str({x}.stops)", "delays": f"BeatValues.from_str({x}.delays)",
            "warps": f"BeatValues.from_str({x}.get('WARPS'))", "offset": f"Decimal({x}.offset or 0)"}
    alt = dict(want)
    alt["warps"] = f"BeatValues.from_str({x}.warps)"
    if judge_source:
        ctx.expect("R-TABLE", td, "BPMS/STOPS/DELAYS/WARPS/OFFSET reach the engine through BeatValues.from_str / Decimal of the chosen source", got in (want, alt), str(got), f"fields: {got}", node=td.node)
    else:
        shape = all(k in got for k in want) and all(got[k].startswith("BeatValues.from_str(") for k in ("bpms", "stops", "delays", "warps")) and got.get("offset", "").startswith("Decimal(") \
            and all(kk in got[k] for k, kk in (("bpms", ".bpms"), ("stops", ".stops"), ("delays", ".delays"), ("warps", "WARPS"), ("offset", ".offset")))
        ctx.expect("R-TABLE", td, "the BPMS/STOPS/DELAYS/WARPS strings are parsed by BeatValues.from_str and OFFSET by Decimal, each from its own property", shape, str(got), f"fields: {got}", node=td.node)


def _is_split(e: ast.expr, var: str, sep: str) -> bool:
    return (isinstance(e, ast.Call) and isinstance(e.func, ast.Attribute) and e.func.attr == "split" and isinstance(e.func.value, ast.Name) and e.func.value.id == var
            and len(e.args) == 1 and isinstance(e.args[0], ast.Constant) and e.args[0].value == sep and not e.keywords)


# ---------------------------------------------------------------------------
# C15 split timing


SPEC_CHART_TIMING = {"BPMS", "STOPS", "DELAYS", "TIMESIGNATURES", "TICKCOUNTS", "COMBOS", "WARPS", "SPEEDS", "SCROLLS", "FAKES", "LABELS"}
TS = "simfile.timing._private.timingsource"


def timing_source_rule(ctx: Ctx) -> None:
    p = ctx.p
    tbl = p.const(TS, "CHART_TIMING_PROPERTIES")
    keys = [d.key for d in tbl if isinstance(d, Descriptor)]
    owners = {d.owner for d in tbl if isinstance(d, Descriptor)}
    ctx.expect("R-TABLE", (TS, ""), "CHART_TIMING_PROPERTIES are the eleven SSC chart timing properties", set(keys) == SPEC_CHART_TIMING and len(keys) == len(tbl) == 11 and not any(d.alias for d in tbl),
               str(sorted(keys)), f"table keys {sorted(keys)} vs documented {sorted(SPEC_CHART_TIMING)}")
    ctx.expect("R-TABLE", (TS, ""), "they are SSCChart's own descriptors", owners == {"simfile.ssc.SSCChart"}, str(owners), str(owners))
    try:
        thr = p.const(TS, "SSC_VERSION_SPLIT_TIMING")
    except AnalysisError:
        node_ = p.module(TS).top.get("SSC_VERSION_SPLIT_TIMING")
        val_ = getattr(node_, "value", None)
        if isinstance(val_, ast.Call) and isinstance(val_.func, ast.Name) and val_.func.id in ("Decimal", "Fraction"):
            ctx.bad("R-TABLE", (TS, ""), "split timing starts with SSC version 0.7 (a float, compared with float(version))", f"the threshold is {src(val_)}: float(version) is compared with it exactly, "
                    "and float('0.7') is slightly below the exact decimal 0.7, so version 0.7 itself no longer counts", node=node_)
            return
        raise
    ctx.expect("R-TABLE", (TS, ""), "split timing starts with SSC version 0.7", thr == 0.7 and isinstance(thr, float), str(thr), f"threshold is {thr!r}")
    f = p.func(f"{TS}:timing_source")
    sf, ch = f.param_names()
    from .tables import function_decs, judge, sums_of, atoms_seen, terminal_and_exit
    sums = sums_of(ctx, f)
    decs = function_decs(sums, terminal_and_exit)
    keys = atoms_seen(decs)
    a_sim, a_chart = f"isinstance({sf}, SSCSimfile)", f"isinstance({ch}, SSCChart)"
    vers = [k for k in keys if "version" in k.lower()]
    loops = {(ast.unparse(e.target), ast.unparse(e.value)) for s_ in sums for e in s_.effects if e.kind == "for"}
    okl = len(loops) == 1 and list(loops)[0][1] == "CHART_TIMING_PROPERTIES"
    lv = list(loops)[0][0] if loops else "?"
    hits = [k for k in keys if lv in {n.id for n in ast.walk(ast.parse(k, mode="eval")) if isinstance(n, ast.Name)}]
    from ..decide import key as _ckey
    VER = f"float({sf}.version or '0') >= {thr!r}"
    # the attribute view 'version' is item_property('VERSION') without an alias: reading the key through get() is the same read
    VER2 = f"float({sf}.get('VERSION') or '0') >= {thr!r}"
    okv = len(vers) == 1 and vers[0] in (_ckey(VER), _ckey(VER2))
    ctx.expect("R-TABLE", f, "the version test is float(version or '0') >= SSC_VERSION_SPLIT_TIMING", okv, str(vers),
               f"version condition(s): {vers} - the documented rule is 'version 0.7 or later' (absent/empty version counts as 0)", node=f.node) if vers else None
    oka = okl and hits == [f"{lv}.__get__({ch})"]
    ctx.expect("R-TABLE", f, "the chart counts as timed when any of its timing properties is non-empty (truthy)", oka, str(hits),
               f"chart timing condition(s): {hits} over {sorted(loops)}: must be 'some property value of the chart is truthy' over the eleven chart timing properties", node=f.node) if hits else None
    if len(vers) != 1 or len(hits) != 1:
        raise AnalysisError(f"{f.fq}: the version / chart-timing conditions are not recognised (found {vers} / {hits})")
    judge(ctx, "R-TABLE", f, "the chart is the source exactly under: SSC simfile and SSC chart and version >= 0.7 and any non-empty chart timing property; otherwise the simfile",
          decs, [a_sim, a_chart, VER, hits[0]], lambda a: f"return {ch} [leaving the loop at this element]" if all(a.values()) else f"return {sf}", equiv={VER2: (VER, True)})


def single_source(ctx: Ctx) -> None:
    """R-SINGLE: after x = timing_source(simfile, chart) every property is read from x; the parameters are not read again."""
    p = ctx.p
    for fq, params in (("simfile.timing:TimingData.__init__", None), ("simfile.timing.displaybpm:displaybpm", None)):
        f = p.func(fq)
        loc = locals_of(f)
        srcs = [(n, b) for n, bs in loc.b.items() for b in bs if b.kind == "assign" and isinstance(b.value, ast.Call) and callee_name(ctx, f, b.value).endswith("timing_source")]
        (x, sb) = one(srcs, f"timing_source call in {fq}")
        call = sb.value
        cand = [q for q in f.param_names() if q not in ("self", "ignore_specified")]
        passed = [a.id for a in call.args if isinstance(a, ast.Name)]
        ctx.expect("R-SINGLE", f, "timing_source receives the caller's simfile and chart", passed == cand[:2] and len(call.args) == 2 and len(loc.b.get(x, [])) == 1, str(passed), f"timing_source({', '.join(src(a) for a in call.args)})", node=call)
        others = []
        for n in body_walk(f.node):
            if isinstance(n, ast.Name) and isinstance(n.ctx, ast.Load) and n.id in cand[:2] and not any(n is a for a in call.args):
                others.append(n)
        ctx.expect("R-SINGLE", f, "simfile/chart are not read again after the source was chosen", not others, "", f"{len(others)} further read(s) of {sorted({o.id for o in others})}: values from the two sources could be mixed", node=others[0] if others else f.node)
        reads = [n for n in body_walk(f.node) if isinstance(n, ast.Name) and isinstance(n.ctx, ast.Load) and n.id == x]
        ctx.floor(f"{f.qualname} reads of the chosen source", len(reads), 3)


def displaybpm_rule(ctx: Ctx) -> None:
    """C15.5: the five outcomes of displaybpm() as a decision table over closed-form guards (path effects)."""
    p = ctx.p
    f = p.func("simfile.timing.displaybpm:displaybpm")
    from .tables import function_decs, judge, sums_of, resolved
    sums = sums_of(ctx, f)
    xs = {e.target.id for s_ in sums for e in s_.effects if e.kind == "bind" and isinstance(e.target, ast.Name) and isinstance(e.value, ast.Call)
          and callee_name_text(e.value).endswith("timing_source")}
    require(len(xs) == 1, f"displaybpm: expected one local holding timing_source(...), found {sorted(xs)}")
    x = next(iter(xs))
    dv = f"{x}['DISPLAYBPM']"
    # the list of BPM values: a local filled with <e>.value for e in BeatValues.from_str(x['BPMS'])
    Bs = set()
    for s_ in sums:
        for i, e in enumerate(s_.effects):
            if e.kind == "for" and ast.unparse(e.value) == f"BeatValues.from_str({x}['BPMS'])" and isinstance(e.target, ast.Name):
                for e2 in s_.effects[i + 1:]:
                    if e2.kind == "expr" and e.line in e2.loops and isinstance(e2.value, ast.Call) and isinstance(e2.value.func, ast.Attribute) and e2.value.func.attr == "append" \
                            and isinstance(e2.value.func.value, ast.Name) and len(e2.value.args) == 1 and ast.unparse(e2.value.args[0]) == f"{e.target.id}.value":
                        Bs.add(e2.value.func.value.id)
            if e.kind == "bind" and isinstance(e.target, ast.Name) and isinstance(e.value, ast.ListComp) and len(e.value.generators) == 1 and not e.value.generators[0].ifs \
                    and isinstance(e.value.generators[0].target, ast.Name) and ast.unparse(e.value.generators[0].iter) == f"BeatValues.from_str({x}['BPMS'])" \
                    and ast.unparse(e.value.elt) == f"{e.value.generators[0].target.id}.value":
                Bs.add(e.target.id)
    ctx.expect("R-TABLE", f, "the BPM values are those of the chosen source's BPMS", len(Bs) == 1, str(sorted(Bs)), f"no list of '<event>.value for event in BeatValues.from_str({x}[\'BPMS\'])' found", node=f.node)
    if len(Bs) != 1:
        return
    B = next(iter(Bs))
    IN, IGN, STAR, COL, ONE = f"'DISPLAYBPM' in {x}", "ignore_specified", f"{dv} == '*'", f"':' in {dv}", f"len({B}) == 1"

    def spec(a):
        if a[IN] and not a[IGN]:
            if a[STAR]:
                return "return RandomDisplayBPM()"
            if a[COL]:
                return f"return RangeDisplayBPM(min=Decimal({dv}.partition(':')[0]), max=Decimal({dv}.partition(':')[2]))"
            return f"return StaticDisplayBPM(value=Decimal({dv}))"
        return f"return StaticDisplayBPM(value={B}[0])" if a[ONE] else f"return RangeDisplayBPM(min=min({B}), max=max({B}))"

    decs = function_decs(sums)
    judge(ctx, "R-TABLE", f, "a usable DISPLAYBPM ('*' -> random, 'a:b' -> range of the two numbers, one number -> static) wins unless ignore_specified; otherwise from BPMS: one value -> static, else range(min, max)",
          decs, [IN, IGN, STAR, COL, ONE], spec, dont_care=[f"{dv} is None"])
    # the fallback: only a malformed number (InvalidOperation) leads from a specified DISPLAYBPM to the BPMS
    tries = [t for t in body_walk(f.node) if isinstance(t, ast.Try)]
    okt = len(tries) == 1 and len(tries[0].handlers) == 1 and tries[0].handlers[0].type is not None and ast.unparse(tries[0].handlers[0].type) == "InvalidOperation" and not tries[0].finalbody
    ctx.expect("R-EXC", f, "only a malformed number (InvalidOperation) falls back to the BPMS", okt, "", f"{len(tries)} try statement(s): {[ast.unparse(h.type) if h.type is not None else 'bare' for t in tries for h in t.handlers]}", node=f.node)
    if okt:
        ex = sums_of(ctx, f, follow_exc=True, limit=60000)
        bad = []
        n = 0
        for s_ in ex:
            if any(e.kind == "except" for e in s_.effects) and s_.end != "raise":
                n += 1
                from .tables import terminal_text
                t = terminal_text(s_)
                if t not in (f"return StaticDisplayBPM(value={B}[0])", f"return RangeDisplayBPM(min=min({B}), max=max({B}))"):
                    bad.append(t)
        ctx.expect("R-EXC", f, "after a malformed number the result comes from the BPMS", not bad and n > 0, f"{n} handler paths", f"handler paths end in {sorted(set(bad))[:3]}", node=tries[0])


class OneOfS(str):
    """A text with accepted alternative spellings."""

    def __new__(cls, *alts):
        o = str.__new__(cls, alts[0])
        o.alts = tuple(alts)
        return o

    def __eq__(self, other):
        return other in self.alts

    def __ne__(self, other):
        return other not in self.alts

    __hash__ = str.__hash__


def callee_name_text(c: ast.Call) -> str:
    f = c.func
    return f.id if isinstance(f, ast.Name) else (f.attr if isinstance(f, ast.Attribute) else "")


def coalesce_coherence(ctx: Ctx) -> None:
    """The boundary a warp is compared with is the beat of the last WARP_END event: read live from the list, or a
    cache that is assigned exactly when (and what) the list's last end is stored."""
    p = ctx.p
    f = p.func(f"{TE}._coalesce_warps")
    cfg = ctx.cfg(f)
    rets = [r for r in body_walk(f.node) if isinstance(r, ast.Return)]
    r = one(rets, f"return of {f.fq}")
    require(isinstance(r.value, (ast.List, ast.Tuple)) and len(r.value.elts) == 2 and all(isinstance(e, ast.Tuple) and isinstance(e.elts[0], ast.Name) for e in r.value.elts),
            f"{f.fq}: return shape not recognised")
    ends = r.value.elts[1].elts[0].id
    loops = [l for l in for_loops(f) if ast.unparse(l.iter) == f"{f.param_names()[0]}.timing_data.warps"]
    lp = one(loops, f"loop over the warps in {f.fq}")
    cmps = [n for st in lp.body for n in walk_no_nested(st) if isinstance(n, ast.Compare) and len(n.ops) == 1 and isinstance(n.ops[0], (ast.LtE, ast.Lt)) and ast.unparse(n.left).endswith(".beat")]
    cmp_ = one(cmps, f"comparison 'warp.beat <= <last end>' in {f.fq}")
    X = cmp_.comparators[0]
    live = f"{ends}[-1].beat"
    loc = locals_of(f)

    def stores_on(node_id: int):
        """(kind, beat expr text) for a store into the ends list at this CFG node."""
        n = cfg.nodes[node_id]
        out = []
        if n.ast is None or n.kind not in ("stmt",):
            return out
        st = n.ast
        for c in ast.walk(st):
            if isinstance(c, ast.Call) and isinstance(c.func, ast.Attribute) and c.func.attr == "append" and isinstance(c.func.value, ast.Name) and c.func.value.id == ends and c.args \
                    and isinstance(c.args[0], ast.Call):
                kw = {k.arg: k.value for k in c.args[0].keywords}
                if "beat" in kw:
                    out.append(("store", ast.unparse(kw["beat"])))
        if isinstance(st, ast.Assign) and isinstance(st.targets[0], ast.Subscript) and isinstance(st.targets[0].value, ast.Name) and st.targets[0].value.id == ends \
                and isinstance(st.value, ast.Call):
            kw = {k.arg: k.value for k in st.value.keywords}
            if "beat" in kw:
                out.append(("store", ast.unparse(kw["beat"])))
        return out

    if not any(stores_on(n.id) for n in cfg.nodes if any(n.ast is x or (n.ast is not None and any(y is n.ast for y in ast.walk(x))) for x in lp.body)):
        # the (start, end)-pairs representation: the compared boundary must be the last pair's end, read from the list itself
        from .tables import sums_of as _ts_c, closed as _cl_c
        bounds = set()
        for s_ in _ts_c(ctx, f):
            for k_ in s_.plain_assign():
                if ".beat" in k_ and "[-1]" in k_:
                    bounds.add(k_)
        pair_lists = {b_.split("[-1]")[0].split()[-1].lstrip("(") for b_ in bounds}
        if bounds and len(pair_lists) == 1 and all("[-1][1]" in b_ for b_ in bounds):
            ctx.ok("R-SINGLE", f, "the compared boundary is read from the last segment's end in the same iteration", sorted(bounds)[0], node=lp)
            return
        raise AnalysisError(f"{f.fq}: the WARP_END list '{ends}' is not written while the warps are walked - the segments are kept in another representation, which this rule does not model")
    if isinstance(X, ast.Name):
        bs = loc.b.get(X.id, [])
        inner = [b for b in bs if in_body(lp, b.node)]
        if len(bs) == 1 and len(inner) == 1 and bs[0].kind == "assign" and ast.unparse(bs[0].value) == live \
                and cfg.dominates(cfg_node_of(cfg, f, bs[0].node), cfg_node_of(cfg, f, cmp_)):
            ctx.ok("R-SINGLE", f, "the compared boundary is read from the last WARP_END event in the same iteration", f"{X.id} = {live}", node=cmp_)
        else:
            # cache mode: enumerate the paths of one iteration
            h = cfg.node_for(lp)
            starts = [s for s, lab in cfg.succ[h] if lab == "iter"]
            paths: List[List[int]] = []

            def dfs(n, path):
                if len(paths) > 2000:
                    return
                if n == h:
                    paths.append(path)
                    return
                for s, lab in cfg.succ[n]:
                    if lab == "exc" or s in path:
                        continue
                    dfs(s, path + [s])

            for s in starts:
                dfs(s, [s])
            bad = None
            for path in paths:
                events = []
                for n in path:
                    events.extend(stores_on(n))
                    st = cfg.nodes[n].ast
                    if cfg.nodes[n].kind == "stmt" and isinstance(st, (ast.Assign, ast.AnnAssign)):
                        tg = st.targets[0] if isinstance(st, ast.Assign) else st.target
                        if isinstance(tg, ast.Name) and tg.id == X.id and st.value is not None:
                            events.append(("cache", ast.unparse(st.value)))
                last_store = [e for e in events if e[0] == "store"][-1:] or [None]
                last_cache = [e for e in events if e[0] == "cache"][-1:] or [None]
                ok_path = (last_store[0] is None and last_cache[0] is None) or (
                    last_store[0] is not None and last_cache[0] is not None and last_store[0][1] == last_cache[0][1]
                    and events.index(last_cache[0]) > max(i for i, e in enumerate(events) if e[0] == "store") - 0 or False)
                if last_store[0] is not None and last_cache[0] is not None and last_store[0][1] == last_cache[0][1]:
                    ok_path = True
                if not ok_path:
                    bad = (path, events)
                    break
            if bad is None:
                ctx.ok("R-SINGLE", f, f"the cached boundary '{X.id}' is updated exactly when the last WARP_END event is stored", f"{len(paths)} iteration paths", node=cmp_)
            else:
                ctx.bad("R-SINGLE", f, "the compared boundary is the beat of the last WARP_END event",
                        f"'{X.id}' is a cached copy of {live} that goes stale: on one iteration path the list's last end and the cache diverge ({bad[1]}); "
                        f"a later warp is then compared with the wrong boundary (three overlapping / nested warps)", node=cmp_, path=cfg.describe_path(bad[0]))
    else:
        ctx.expect("R-SINGLE", f, "the compared boundary is read from the last WARP_END event", ast.unparse(X) == live, ast.unparse(X), f"compared with {ast.unparse(X)}", node=cmp_)
    # the extension test uses the same boundary, and an extension overwrites the last end with the new end
    gts = [n for st in lp.body for n in walk_no_nested(st) if isinstance(n, ast.Compare) and len(n.ops) == 1 and isinstance(n.ops[0], ast.Gt)]
    okg = len(gts) == 1 and ast.unparse(gts[0].comparators[0]) == ast.unparse(X)
    ctx.expect("R-SINGLE", f, "the extension test compares the new end with the same boundary", okg, "", "", node=lp)
    if okg:
        E = ast.unparse(gts[0].left)
        sts = [n for st in lp.body for n in walk_no_nested(st) if isinstance(n, ast.Assign) and isinstance(n.targets[0], ast.Subscript) and ast.unparse(n.targets[0]) == f"{ends}[-1]"]
        oke = len(sts) == 1 and isinstance(sts[0].value, ast.Call) and {k.arg: ast.unparse(k.value) for k in sts[0].value.keywords}.get("beat") == E
        if oke:
            fs = [(ast.unparse(a), pol) for a, pol in facts(ctx, f, sts[0])]
            oke = (ast.unparse(gts[0]), True) in fs and (ast.unparse(cmp_), True) in fs
        ctx.expect("R-SINGLE", f, "an overlapping warp that ends later extends the last segment to its end", oke, "", "", node=lp)


def queries_are_pure(ctx: Ctx, methods: Sequence[str] = ()) -> None:
    """The query methods of TimingEngine never write engine state: an answer is a function of (argument, tag) only,
    whatever was asked before.  Engine attributes are assigned only while the engine is built."""
    p = ctx.p
    ci = p.cls(f"{ENG}.TimingEngine")
    builders = {"__init__", "_retime_events"}
    n = 0
    for name, m in ci.methods.items():
        if m.parent is not None:
            continue
        sn = m.param_names()[0] if m.param_names() else "self"
        writes = []
        for node in body_walk(m.node):
            tg = []
            if isinstance(node, ast.Assign):
                tg = node.targets
            elif isinstance(node, (ast.AugAssign, ast.AnnAssign)):
                tg = [node.target] if getattr(node, "value", True) is not None else []
            elif isinstance(node, ast.Delete):
                tg = node.targets
            for t in tg:
                root = t
                while isinstance(root, (ast.Subscript, ast.Attribute)):
                    root = root.value
                if isinstance(t, (ast.Attribute, ast.Subscript)) and isinstance(root, ast.Name) and root.id == sn:
                    writes.append(src(node, 70))
            if isinstance(node, ast.Call) and isinstance(node.func, ast.Attribute) and node.func.attr in ("append", "extend", "insert", "pop", "clear", "update", "sort", "remove", "setdefault", "advance"):
                root = node.func.value
                while isinstance(root, (ast.Subscript, ast.Attribute)):
                    root = root.value
                if isinstance(root, ast.Name) and root.id == sn and isinstance(node.func.value, (ast.Attribute, ast.Subscript)):
                    writes.append(src(node, 70))
        if name in builders or (methods and name not in methods):
            continue
        n += 1
        ctx.expect("R-PURE", m, f"TimingEngine.{name} does not write engine state", not writes, "",
                   f"{'; '.join(writes)}: the answer of a later query then depends on earlier ones (e.g. a remembered index that ignores the tag)", node=m.node)
    ctx.floor("TimingEngine query methods", n, len(methods) if methods else 5)
