"""
Query helpers shared by the rule modules.
"""
from __future__ import annotations

import ast
from typing import Any, Callable, Dict, Iterable, Iterator, List, Optional, Sequence, Set, Tuple

from ..cfg import CFG
from ..engine import (AnalysisError, ClassInfo, External, FunctionInfo, NotConst, Program, attr_chain, body_walk, norm, src,
                      walk_no_nested)
from ..flow import (Typer, call_args, cfg_node_of, edge_dominates, facts_of, guards_at, guards_of_expr, inline, locals_of, same,
                    stmt_of)
from ..report import Ctx

_typers: Dict[int, Typer] = {}


def typer(ctx: Ctx) -> Typer:
    k = id(ctx.p)
    if k not in _typers:
        _typers[k] = Typer(ctx.p)
    return _typers[k]


def callee(ctx: Ctx, fi: FunctionInfo, call: ast.Call) -> Any:
    return typer(ctx).resolve_call(fi, call)


def callee_name(ctx: Ctx, fi: FunctionInfo, call: ast.Call) -> str:
    c = callee(ctx, fi, call)
    if isinstance(c, FunctionInfo):
        return c.fq
    if isinstance(c, ClassInfo):
        return c.fq
    if isinstance(c, External):
        return c.name
    return ""


def calls(fi: FunctionInfo) -> List[ast.Call]:
    return [n for n in body_walk(fi.node) if isinstance(n, ast.Call)]


def calls_named(ctx: Ctx, fi: FunctionInfo, name: str) -> List[ast.Call]:
    return [c for c in calls(fi) if callee_name(ctx, fi, c) == name]


def method_calls(fi: FunctionInfo, attr: str) -> List[ast.Call]:
    return [c for c in calls(fi) if isinstance(c.func, ast.Attribute) and c.func.attr == attr]


def facts(ctx: Ctx, fi: FunctionInfo, node: ast.AST) -> List[Tuple[ast.expr, bool]]:
    """Guard facts at *node*: CFG test edges that dominate it, enclosing conditional expressions / boolean operators,
    and - for a guard that is a local bound once to an expression - that expression too."""
    out = list(guards_of_expr(ctx.cfg(fi), fi, node))
    # enclosing IfExp / short-circuit operands inside the statement
    child, par = node, parent(fi, node)
    while par is not None and not isinstance(par, ast.stmt):
        if isinstance(par, ast.IfExp):
            if child is par.body:
                out.extend(facts_of(par.test, True))
            elif child is par.orelse:
                out.extend(facts_of(par.test, False))
        child, par = par, parent(fi, par)
    extra = []
    loc = locals_of(fi)
    for a, pol in out:
        if isinstance(a, ast.Name):
            b = loc.single(a.id)
            if b is not None and b.kind == "assign" and b.value is not None and not isinstance(b.value, ast.Constant):
                extra.extend(facts_of(b.value, pol))
    return out + [x for x in extra if not any(norm(x[0]) == norm(y[0]) and x[1] == y[1] for y in out)]


def ev(ctx: Ctx, fi: FunctionInfo, e: ast.expr) -> Any:
    """Constant value of an expression inside *fi* (module/class constants, literals; single-assignment locals are inlined)."""
    try:
        return ctx.p.eval_const(fi.module, e)
    except NotConst:
        return ctx.p.eval_const(fi.module, inline(e, fi))


def try_ev(ctx: Ctx, fi: FunctionInfo, e: ast.expr, default: Any = None) -> Any:
    try:
        return ev(ctx, fi, e)
    except NotConst:
        return default
    except Exception:
        return default


def fact_in_table(ctx: Ctx, fi: FunctionInfo, fs: List[Tuple[ast.expr, bool]], var: ast.expr, table: Iterable[Any]) -> Optional[bool]:
    """Polarity of a fact ``var in <table>`` among *fs* (None when absent). ``var not in T`` is normalised."""
    want = set(table)
    key = norm(var)
    for atom, pol in fs:
        if isinstance(atom, ast.Compare) and len(atom.ops) == 1 and norm(atom.left) == key:
            op = atom.ops[0]
            if isinstance(op, (ast.In, ast.NotIn)):
                t = try_ev(ctx, fi, atom.comparators[0])
                try:
                    if t is not None and set(t) == want:
                        return pol if isinstance(op, ast.In) else (not pol)
                except TypeError:
                    pass
    return None


def fact_eq_const(ctx: Ctx, fi: FunctionInfo, fs: List[Tuple[ast.expr, bool]], var: ast.expr, const: Any) -> Optional[bool]:
    key = norm(var)
    for atom, pol in fs:
        if isinstance(atom, ast.Compare) and len(atom.ops) == 1:
            l, r = atom.left, atom.comparators[0]
            op = atom.ops[0]
            if not isinstance(op, (ast.Eq, ast.NotEq)):
                continue
            for a, b in ((l, r), (r, l)):
                if norm(a) == key:
                    v = try_ev(ctx, fi, b, default=_NO)
                    if v is not _NO and v == const:
                        return pol if isinstance(op, ast.Eq) else (not pol)
    return None


_NO = object()


def fact_is_none(fs: List[Tuple[ast.expr, bool]], var: ast.expr) -> Optional[bool]:
    """True: var is None on this path; False: var is not None; None: unknown."""
    key = norm(var)
    for atom, pol in fs:
        if isinstance(atom, ast.Compare) and len(atom.ops) == 1 and norm(atom.left) == key:
            c = atom.comparators[0]
            if isinstance(c, ast.Constant) and c.value is None:
                if isinstance(atom.ops[0], ast.Is):
                    return pol
                if isinstance(atom.ops[0], ast.IsNot):
                    return not pol
    return None


def string_parts(e: ast.expr) -> Optional[List[Tuple[str, Any]]]:
    """Decompose a string-building expression into ("lit", str) / ("expr", node) parts."""
    if isinstance(e, ast.Constant) and isinstance(e.value, str):
        return [("lit", e.value)]
    if isinstance(e, ast.JoinedStr):
        out: List[Tuple[str, Any]] = []
        for v in e.values:
            if isinstance(v, ast.Constant):
                out.append(("lit", v.value))
            elif isinstance(v, ast.FormattedValue):
                if v.format_spec is not None or v.conversion not in (-1, 115):  # !s is fine
                    out.append(("fmt", v))
                else:
                    out.append(("expr", v.value))
        return out
    if isinstance(e, ast.BinOp) and isinstance(e.op, ast.Add):
        a, b = string_parts(e.left), string_parts(e.right)
        if a is None or b is None:
            return None
        return a + b
    if isinstance(e, ast.Call) and isinstance(e.func, ast.Name) and e.func.id == "str" and len(e.args) == 1 and not e.keywords:
        return [("expr", e.args[0])]
    if isinstance(e, (ast.Name, ast.Attribute, ast.Subscript, ast.Call)):
        return [("expr", e)]
    return None


def self_attr(e: ast.AST, self_name: str = "self") -> Optional[str]:
    if isinstance(e, ast.Attribute) and isinstance(e.value, ast.Name) and e.value.id == self_name:
        return e.attr
    return None


def loop_of(fi: FunctionInfo, node: ast.AST) -> Optional[ast.For]:
    """Innermost for-loop of *fi* whose body contains *node*."""
    best = None
    for n in body_walk(fi.node):
        if isinstance(n, (ast.For, ast.While)):
            for st in n.body:
                for m in walk_no_nested(st):
                    if m is node:
                        best = n
    return best


def for_loops(fi: FunctionInfo) -> List[ast.For]:
    return [n for n in body_walk(fi.node) if isinstance(n, ast.For)]


def in_body(loop: ast.AST, node: ast.AST) -> bool:
    for st in loop.body:
        for m in walk_no_nested(st):
            if m is node:
                return True
    return False


def loop_must_pass(cfg: CFG, loop: ast.For, targets: Iterable[int]) -> Optional[List[int]]:
    """Every path from the loop's iter edge back to its header passes a target node.
    Returns an offending path or None."""
    h = cfg.node_for(loop)
    starts = [s for s, lab in cfg.succ[h] if lab == "iter"]
    removed = set(targets)
    for s in starts:
        if s in removed:
            continue
        prev = {s: None}
        queue = [s]
        while queue:
            n = queue.pop(0)
            if n == h:
                path = []
                while n is not None:
                    path.append(n)
                    n = prev[n]
                return list(reversed(path))
            for t, lab in cfg.succ[n]:
                if lab == "exc" or t in removed or t in prev:
                    continue
                # leaving the loop (break / return) is not a completed iteration
                prev[t] = n
                queue.append(t)
    return None


def require(cond: bool, what: str) -> None:
    if not cond:
        raise AnalysisError(what)


def one(items: Sequence[Any], what: str) -> Any:
    if len(items) != 1:
        raise AnalysisError(f"expected exactly one {what}, found {len(items)}")
    return items[0]


def unparse_facts(fs: List[Tuple[ast.expr, bool]]) -> str:
    return " & ".join(("" if pol else "not ") + f"({src(a, 60)})" for a, pol in fs) or "(unconditional)"


_parent_cache: Dict[int, Dict[int, ast.AST]] = {}


def parents(fi: FunctionInfo) -> Dict[int, ast.AST]:
    k = id(fi.node)
    if k not in _parent_cache:
        m: Dict[int, ast.AST] = {}
        for n in ast.walk(fi.node):
            for c in ast.iter_child_nodes(n):
                m[id(c)] = n
        _parent_cache[k] = m
    return _parent_cache[k]


def parent(fi: FunctionInfo, node: ast.AST) -> Optional[ast.AST]:
    return parents(fi).get(id(node))


def is_method_call_on(node: ast.AST, fi: FunctionInfo, attr: str) -> Optional[ast.Call]:
    """If *node* is the receiver of ``.attr(...)`` return that call."""
    p1 = parent(fi, node)
    if isinstance(p1, ast.Attribute) and p1.value is node and p1.attr == attr:
        p2 = parent(fi, p1)
        if isinstance(p2, ast.Call) and p2.func is p1:
            return p2
    return None


def name_bindings_values(fi: FunctionInfo, name: str) -> List[Optional[ast.expr]]:
    """RHS expressions of every plain assignment to *name* (None for other binding kinds)."""
    out: List[Optional[ast.expr]] = []
    for b in locals_of(fi).b.get(name, []):
        out.append(b.value if b.kind == "assign" else None)
    return out
