"""
R-API / R-CONST / R-BASES: the public surface a property speaks about - signatures and defaults of the entry points,
the values of public module-level constants and class-level tables, the members of the enumerations, the blank
templates, the base classes - evaluated from the current sources and compared with the values confirmed on the
repaired tree (sfa/baseline.json, written once with `python -m sfa.rules.baseline --write`, never at check time).

These are value comparisons (constants are *evaluated*, bases *resolved*, defaults *unparsed from the AST*), not text
or position matches: an edit that changes one of them changes the documented API, a wrong default, a reordered
priority table, an enumeration member's value.  Private names (leading underscore) are not part of the baseline.
"""
from __future__ import annotations

import ast
import json
import os
import sys
from typing import Any, Dict, Iterable, List, Optional

from ..engine import AnalysisError, ClassInfo, ClassRef, DefaultDictVal, Descriptor, EnumVal, External, FunctionInfo, NotConst, Program, RecordVal
from ..report import Ctx

BASELINE_FILE = os.path.join(os.path.dirname(os.path.dirname(os.path.abspath(__file__))), "baseline.json")


def _ser(v: Any) -> Any:
    """JSON-able, order-preserving description of an evaluated constant."""
    if isinstance(v, EnumVal):
        return f"<{v.cls.rsplit('.', 1)[-1]}.{v.name}>"
    if isinstance(v, ClassRef):
        return f"<class {v.qualname}>"
    if isinstance(v, Descriptor):
        return f"<item_property {v.owner.rsplit('.', 1)[-1]}.{v.attr} key={v.key} alias={v.alias}>"
    if isinstance(v, RecordVal):
        return {"<record>": v.cls.rsplit(".", 1)[-1], "fields": {k: _ser(x) for k, x in v.fields}}
    if isinstance(v, DefaultDictVal):
        return {"<defaultdict>": _ser(v.default), "items": [[_ser(k), _ser(x)] for k, x in v.items()]}
    if isinstance(v, dict):
        return {"<dict>": [[_ser(k), _ser(x)] for k, x in v.items()]}
    if isinstance(v, (set, frozenset)):
        return {"<set>": sorted((_ser(x) for x in v), key=str)}
    if isinstance(v, tuple):
        return {"<tuple>": [_ser(x) for x in v]}
    if isinstance(v, list):
        return [_ser(x) for x in v]
    if isinstance(v, (str, int, float, bool)) or v is None:
        return v
    return f"<{type(v).__name__} {v!r}>"


def _signature(f: FunctionInfo) -> Dict[str, Any]:
    a = f.node.args
    pos = a.posonlyargs + a.args
    defaults = [None] * (len(pos) - len(a.defaults)) + list(a.defaults)
    out = {"params": [], "decorators": sorted(f.decorators())}
    for arg, d in zip(pos, defaults):
        out["params"].append([arg.arg, ast.unparse(d) if d is not None else None])
    if a.vararg:
        out["params"].append(["*" + a.vararg.arg, None])
    for arg, d in zip(a.kwonlyargs, a.kw_defaults):
        out["params"].append(["kw:" + arg.arg, ast.unparse(d) if d is not None else None])
    if a.kwarg:
        out["params"].append(["**" + a.kwarg.arg, None])
    return out


_NOT_BEHAVIOUR = {"__repr__", "__doc__", "__slots__", "__annotations__", "__module__", "__qualname__", "__init_subclass__", "__class_getitem__", "__match_args__", "__dict__", "__weakref__"}


def snapshot(p: Program) -> Dict[str, Any]:
    snap: Dict[str, Any] = {"signatures": {}, "constants": {}, "enums": {}, "bases": {}, "class_constants": {}, "dunders": {}}
    for f in p.nontest_functions():
        if f.parent is not None:
            continue
        public = not f.name.startswith("_") or (f.name.startswith("__") and f.name.endswith("__"))
        cls_public = f.cls is None or not f.cls.name.startswith("_")
        if public and cls_public and not f.module.name.split(".")[-1].startswith("_") or f.fq in ("simfile._private.property:item_property", "simfile._private.extensions:match"):
            snap["signatures"][f.fq] = _signature(f)
    for mod in p.nontest_modules():
        for name, node in mod.top.items():
            if name.startswith("_") or isinstance(node, (ast.FunctionDef, ast.AsyncFunctionDef, ast.ClassDef)) or name == "__all__":
                continue
            try:
                snap["constants"][f"{mod.name}.{name}"] = _ser(p.const(mod.name, name))
            except (AnalysisError, NotConst, Exception):
                continue  # type aliases, TypeVars ... are not values
        alln = p.module_all(mod)
        if alln is not None:
            snap["constants"][f"{mod.name}.__all__"] = sorted(alln)
    for ci in p.nontest_classes():
        bases = [b.fq if isinstance(b, ClassInfo) else getattr(b, "name", str(b)) for b in ci.bases]
        snap["bases"][ci.fq] = bases
        # the special methods a class defines itself (methods and class-level assignments such as `__hash__ = None`): comparison, hashing,
        # arithmetic, conversion, container and construction protocol.  Presentation only (__repr__) and bookkeeping names are left out.
        own = set(ci.methods) | set(ci.assigns)
        snap["dunders"][ci.fq] = sorted(n for n in own if n.startswith("__") and n.endswith("__") and n not in _NOT_BEHAVIOUR)
        if any(isinstance(b, External) and b.name.startswith("enum.") for b in p.mro(ci)):
            snap["enums"][ci.fq] = [[k, _ser(v.value)] for k, v in p.enum_members(ci).items()]
        else:
            for name in ci.order:
                if name.startswith("_") or name not in ci.assigns or not name.isupper():
                    continue
                try:
                    snap["class_constants"][f"{ci.fq}.{name}"] = _ser(p.class_attr_value(ci, name))
                except Exception:
                    continue
    # blank templates: the key/value pairs each blank() parses
    from .convert import blank_pairs

    class _C:
        pass

    c = _C()
    c.p = p
    snap["blanks"] = {}
    for cls in ("simfile.sm.SMSimfile", "simfile.ssc.SSCSimfile", "simfile.sm.SMChart", "simfile.ssc.SSCChart"):
        try:
            snap["blanks"][cls] = [[k, v] for k, v in blank_pairs(c, cls).items()]
        except Exception:
            continue
    return snap


def load_baseline() -> Dict[str, Any]:
    if not os.path.exists(BASELINE_FILE):
        raise AnalysisError("sfa/baseline.json is missing")
    with open(BASELINE_FILE) as f:
        return json.load(f)


_snap_cache: Dict[int, Dict[str, Any]] = {}


def _snap(ctx: Ctx) -> Dict[str, Any]:
    k = id(ctx.p)
    if k not in _snap_cache:
        _snap_cache[k] = snapshot(ctx.p)
    return _snap_cache[k]


def surface(ctx: Ctx, what: str, modules: Iterable[str] = (), functions: Iterable[str] = (), classes: Iterable[str] = (), keys: Iterable[str] = ()) -> None:
    """The public surface of *modules* (plus the listed functions / classes): signatures with defaults, constants, enumerations, bases."""
    base = load_baseline()
    now = _snap(ctx)
    modules = tuple(modules)
    functions = set(functions)
    classes = set(classes)

    keys = set(keys)

    def in_scope(key: str, kind: str) -> bool:
        if key in keys:
            return True
        modname = key.split(":")[0] if ":" in key else key.rsplit(".", 1)[0]
        if kind == "signatures":
            return key in functions or modname in modules
        if kind in ("bases", "enums", "blanks", "dunders"):
            return key in classes or modname in modules
        if kind == "class_constants":
            return modname in classes or modname.rsplit(".", 1)[0] in modules or any(key.startswith(c + ".") for c in classes)
        return modname in modules

    # constants that have their own semantic rule (regular expressions compared after normalisation) are not compared as raw values
    exempt = {"simfile.assets.ASSET_DEFINITIONS"}
    n = 0
    for kind, label in (("signatures", "signature"), ("constants", "constant"), ("class_constants", "class constant"), ("enums", "enumeration"), ("bases", "base classes"), ("dunders", "special methods defined by"), ("blanks", "blank template")):
        for key, want in base.get(kind, {}).items():
            if not in_scope(key, kind) or key in exempt:
                continue
            n += 1
            got = now.get(kind, {}).get(key, "<absent>")
            where = (key.split(":")[0] if ":" in key else key.rsplit(".", 1)[0], key.split(":")[-1].split(".")[-1] if False else "")
            if got == want:
                ctx.ok("R-API", where, f"{label} {key}", "as documented / confirmed")
                continue
            detail = _diff(kind, key, want, got)
            ctx.bad("R-API", where, f"{label} {key}", f"{what}: {detail}")
        # new public signatures in scope are fine (additions); only changes of the confirmed surface are judged
    ctx.floor(f"surface entries compared ({what})", n, 1)


def _diff(kind: str, key: str, want: Any, got: Any) -> str:
    if got == "<absent>":
        return f"{key} is gone (or can no longer be evaluated); confirmed value: {json.dumps(want)[:200]}"
    if kind == "signatures":
        wp, gp = want["params"], got["params"]
        changes = []
        for (wn, wd) in wp:
            g = [x for x in gp if x[0] == wn]
            if not g:
                changes.append(f"parameter {wn} is gone")
            elif g[0][1] != wd:
                changes.append(f"default of {wn} is {g[0][1]} (documented: {wd})")
        if [x[0] for x in gp if x[0] in [w[0] for w in wp]] != [w[0] for w in wp if w[0] in [x[0] for x in gp]]:
            changes.append("parameter order changed")
        extra = [x for x in gp if x[0] not in [w[0] for w in wp] and x[1] is None and not x[0].startswith(("*", "kw:"))]
        if extra:
            changes.append(f"new required parameter(s) {[x[0] for x in extra]}")
        if want.get("decorators") != got.get("decorators"):
            changes.append(f"decorators {got.get('decorators')} (documented: {want.get('decorators')})")
        if not changes:
            return f"signature differs only by added optional parameters: {gp}"
        return "; ".join(changes)
    if kind == "dunders":
        added, gone = sorted(set(got) - set(want)), sorted(set(want) - set(got))
        return ((f"now also defines {added}" if added else "") + ("; " if added and gone else "") + (f"no longer defines {gone}" if gone else "") +
                ": the class's comparison / hashing / arithmetic / conversion / container behaviour is no longer the confirmed one (inherited or own), which the clauses of this property take as given")
    return f"now {json.dumps(got)[:240]} - confirmed {json.dumps(want)[:240]}"


if __name__ == "__main__":
    if "--write" in sys.argv:
        root = sys.argv[sys.argv.index("--write") + 1] if len(sys.argv) > sys.argv.index("--write") + 1 else "/repo"
        snap = snapshot(Program(root))
        with open(BASELINE_FILE, "w") as f:
            json.dump(snap, f, indent=1, sort_keys=True)
        print("wrote", BASELINE_FILE, {k: len(v) for k, v in snap.items()})
