"""
Rules for open / open_with_detected_encoding / mutate (properties C05, C06)
and the package-wide write-effect census (R-EFFECT).
"""
from __future__ import annotations

import ast
from typing import Any, Dict, List, Optional, Set, Tuple

from ..cfg import CFG, PathEnumerator
from ..engine import AnalysisError, ClassInfo, External, FunctionInfo, body_walk, norm, src, walk_no_nested
from ..flow import cfg_node_of, inline, locals_of, stmt_of
from ..report import Ctx
from .callgraph import callgraph
from .common import (callee, callee_name, calls, ev, facts, for_loops, in_body, method_calls, one, parent, require, self_attr, try_ev,
                     typer, unparse_facts)

OWDE = "simfile:open_with_detected_encoding"
OPEN = "simfile:open"
MUTATE = "simfile:mutate"
SPEC_ENCODINGS = ["utf-8", "cp1252", "cp932", "cp949"]

WRITE_CHARS = set("wax+")
EFFECT_FUNCS = {
    "os.remove", "os.unlink", "os.rename", "os.renames", "os.replace", "os.rmdir", "os.removedirs", "os.mkdir", "os.makedirs",
    "os.truncate", "os.chmod", "os.chown", "os.link", "os.symlink", "os.utime", "os.mkfifo", "os.write", "os.ftruncate",
}
EFFECT_PREFIXES = ("shutil.", "tempfile.")
EFFECT_METHODS = {
    "remove", "removedir", "removetree", "makedir", "makedirs", "move", "movedir", "copy", "copydir", "setinfo", "writetext", "writebytes",
    "writefile", "create", "touch", "appendtext", "appendbytes", "upload", "settext", "setbytes", "setfile", "settimes",
    "write_text", "write_bytes", "unlink", "rmdir", "mkdir", "rename", "replace", "truncate", "rmtree", "copyfile", "copytree",
}
# receivers on which the names above are NOT filesystem effects
VALUE_RECEIVER_METHODS = {"remove", "copy", "replace", "rename", "move", "create", "touch"}
OPEN_WRAPPERS = {
    "simfile._private.nativeosfs:NativeOSFS.open": "forwarding wrapper of the PyFilesystem API (io.open(*args, **kwargs)); the mode is supplied by the caller and judged there",
    "simfile._private.nativeosfs:NativeOSFS.openbin": "forwarding wrapper of the PyFilesystem API; the mode is supplied by the caller and judged there",
}


def is_open_call(ctx: Ctx, fi: FunctionInfo, c: ast.Call) -> bool:
    name = callee_name(ctx, fi, c)
    if name in ("builtins.open", "io.open", "codecs.open", "os.open", "os.fdopen"):
        return True
    if isinstance(c.func, ast.Attribute) and c.func.attr in ("open", "openbin", "opentext"):
        return True
    if isinstance(c.func, ast.Name) and c.func.id == "open" and name.endswith("open"):
        return name.startswith("builtins.") or name.startswith("io.")
    return False


def open_mode(ctx: Ctx, fi: FunctionInfo, c: ast.Call) -> Any:
    """Constant mode of an open call: str, or None when it is not a literal ("r" when absent)."""
    mode: Any = "r"
    args = [a for a in c.args if not isinstance(a, ast.Starred)]
    if any(isinstance(a, ast.Starred) for a in c.args):
        return None
    if len(args) >= 2:
        mode = try_ev(ctx, fi, args[1], default=None)
    for k in c.keywords:
        if k.arg == "mode":
            mode = try_ev(ctx, fi, k.value, default=None)
        if k.arg is None and len(args) < 2 and not any(kk.arg == "mode" for kk in c.keywords):
            # **kwargs could carry a mode; documented kwargs are open()'s other options. Recorded by the caller.
            pass
    return mode if isinstance(mode, str) else None


def write_effects(ctx: Ctx) -> List[Tuple[FunctionInfo, ast.Call, str]]:
    """Every call site with a filesystem write effect in the non-test package."""
    out = []
    for f in ctx.p.nontest_functions():
        for c in calls(f):
            name = callee_name(ctx, f, c)
            if is_open_call(ctx, f, c) and not (isinstance(callee(ctx, f, c), FunctionInfo) and callee(ctx, f, c).fq in ("simfile:open", "simfile.dir:SimfileDirectory.open")):
                mode = open_mode(ctx, f, c)
                if mode is None:
                    out.append((f, c, "open with a non-literal mode"))
                elif set(mode) & WRITE_CHARS:
                    out.append((f, c, f"open mode {mode!r}"))
                continue
            if name in EFFECT_FUNCS or name.startswith(EFFECT_PREFIXES):
                out.append((f, c, name))
                continue
            if isinstance(c.func, ast.Attribute) and c.func.attr in EFFECT_METHODS:
                base = typer(ctx).type_of(f, c.func.value)
                is_fs = (isinstance(base, External) and ("fs." in base.name or base.name.endswith("FS"))) or (
                    isinstance(base, ClassInfo) and ctx.p.is_subclass(base, "fs.base.FS")) or (
                    isinstance(base, tuple) and base[0] == "module" and base[1] in ("os", "shutil", "pathlib"))
                if is_fs:
                    out.append((f, c, f"{src(c.func, 40)}"))
                elif base is None and c.func.attr not in VALUE_RECEIVER_METHODS and not name.startswith("value."):
                    out.append((f, c, f"{src(c.func, 40)} (untyped receiver)"))
    return out


def effect_census(ctx: Ctx, only_reachable_from_mutate: bool = False) -> None:
    """R-EFFECT: the write-effect call sites of the package are exactly the two write-mode opens in mutate."""
    effs = write_effects(ctx)
    if only_reachable_from_mutate:
        reach = callgraph(ctx).reach(ctx.p.func(MUTATE))
        effs = [e for e in effs if e[0].fq in reach or e[0].fq in OPEN_WRAPPERS]
    n_opens = 0
    for f in ctx.p.nontest_functions():
        for c in calls(f):
            if is_open_call(ctx, f, c):
                n_opens += 1
    k = 0
    for f, c, why in effs:
        k += 1
        if f.fq in OPEN_WRAPPERS and "non-literal mode" in why:
            ctx.observe("R-EFFECT", f, f"wrapper {src(c.func, 30)}", OPEN_WRAPPERS[f.fq], node=c)
            continue
        ctx.expect("R-EFFECT", f, f"write effect: {src(c.func, 40)}({why})", f.fq == MUTATE, why,
                   f"{f.fq} has a filesystem write effect ({why}); only mutate may write, and only its backup and output targets", node=c)
    # the forwarding wrappers really forward: every parameter of the wrapper reaches the wrapped open()
    for wfq in OPEN_WRAPPERS:
        wf = ctx.p.functions.get(wfq)
        if wf is None:
            continue
        oc = [c for c in calls(wf) if is_open_call(ctx, wf, c)]
        if len(oc) != 1:
            continue
        c = oc[0]
        passed = {n.id for a in list(c.args) + [k.value for k in c.keywords] for n in ast.walk(inline(a.value if isinstance(a, ast.Starred) else a, wf)) if isinstance(n, ast.Name)}
        params = [q for q in wf.param_names()[1:]] + ([wf.node.args.vararg.arg] if wf.node.args.vararg else []) + ([wf.node.args.kwarg.arg] if wf.node.args.kwarg else [])
        missing = [q for q in params if q not in passed]
        ctx.expect("R-FWD", wf, f"{wf.qualname} forwards every argument to the wrapped open()", not missing, "", f"{missing} never reach {src(c.func, 30)}(): an option the caller relies on "
                   "(e.g. errors=, checked by mutate before it truncates the file) is silently dropped on the native filesystem", node=c)
    in_mutate = [e for e in effs if e[0].fq == MUTATE]
    ctx.expect("R-EFFECT", ctx.p.func(MUTATE), "mutate has exactly two write sites", len(in_mutate) == 2, f"{len(in_mutate)}",
               f"mutate has {len(in_mutate)} write-effect call sites: {[src(c, 60) for _, c, _ in in_mutate]}", node=ctx.p.func(MUTATE).node)
    ctx.floor("open() call sites examined", n_opens, 5)
    # positive control: the rule must recognise a write-mode open when it sees one
    probe = ast.parse("def _p(fs, n):\n    with fs.open(n, 'w') as w:\n        w.write('x')\n").body[0]
    pc = [n for n in ast.walk(probe) if isinstance(n, ast.Call) and isinstance(n.func, ast.Attribute) and n.func.attr == "open"][0]
    m = try_ev(ctx, ctx.p.func(MUTATE), pc.args[1])
    if not (isinstance(m, str) and set(m) & WRITE_CHARS):
        raise AnalysisError("R-EFFECT positive control failed: a literal write-mode open is not recognised")


def encodings_table(ctx: Ctx) -> None:
    enc = ctx.p.const("simfile", "ENCODINGS")
    ctx.expect("R-TABLE", ("simfile", ""), "ENCODINGS == utf-8, cp1252, cp932, cp949 (in this order)", list(enc) == SPEC_ENCODINGS, str(enc),
               f"ENCODINGS is {enc}; documented order is {SPEC_ENCODINGS}")
    for fq in (OWDE, MUTATE):
        f = ctx.p.func(fq)
        d = f.defaults().get("try_encodings")
        v = try_ev(ctx, f, d) if d is not None else None
        ctx.expect("R-TABLE", f, "default try_encodings is ENCODINGS", isinstance(d, ast.Name) and v == enc, src(d) if d is not None else "",
                   f"default is {src(d) if d is not None else 'absent'}", node=f.node)


def encoding_chain(ctx: Ctx) -> None:
    """C05.1/2: the reported encoding is the one the file was opened and fully loaded with; first success wins."""
    p = ctx.p
    f = p.func(OWDE)
    cfg = ctx.cfg(f)
    loc = locals_of(f)
    loops = [lp for lp in for_loops(f) if any(isinstance(n, ast.Name) and n.id == "try_encodings" for n in ast.walk(lp.iter)) and isinstance(lp.target, ast.Name)]
    lp = one(loops, f"loop over try_encodings in {OWDE}")
    ctx.expect("R-FWD", f, "the encodings are tried in the caller's order", loc.only_param("try_encodings") and isinstance(lp.iter, ast.Name), "iterates the parameter itself",
               f"the loop iterates {src(lp.iter)}: not the caller's list in the caller's order", node=lp)
    ev_ = lp.target.id
    opens = [c for c in calls(f) if is_open_call(ctx, f, c) and in_body(lp, c)]
    oc = one(opens, f"filesystem.open call inside the loop of {OWDE}")
    kw = {k.arg: k.value for k in oc.keywords}
    mode = open_mode(ctx, f, oc)
    ctx.expect("R-EFFECT", f, "the input is opened read-only", mode is not None and not (set(mode) & WRITE_CHARS), repr(mode), f"mode is {mode!r}", node=oc)
    ctx.expect("R-FWD", f, "opened with the encoding being tried", isinstance(kw.get("encoding"), ast.Name) and kw["encoding"].id == ev_, "",
               f"encoding= is {src(kw['encoding']) if 'encoding' in kw else 'absent'}", node=oc)
    ctx.expect("R-FWD", f, "opens the caller's filename", bool(oc.args) and isinstance(oc.args[0], ast.Name) and oc.args[0].id == "filename" and loc.only_param("filename"),
               "", f"first argument is {src(oc.args[0]) if oc.args else 'absent'}", node=oc)
    recv = oc.func.value if isinstance(oc.func, ast.Attribute) else None
    ctx.expect("R-FWD", f, "opens on the caller's filesystem", isinstance(recv, ast.Name) and recv.id == "filesystem" and loc.only_param("filesystem"), "",
               f"receiver is {src(recv) if recv is not None else '-'}", node=oc)
    # with ... as file ; return (load(file, strict=strict), encoding)
    w = parent(f, parent(f, oc)) if isinstance(parent(f, oc), ast.withitem) else None
    require(isinstance(w, ast.With), f"{OWDE}: the open call is not a with-item")
    item = [i for i in w.items if i.context_expr is oc][0]
    require(isinstance(item.optional_vars, ast.Name), f"{OWDE}: with-item has no simple 'as' name")
    fv = item.optional_vars.id
    rets = [r for r in body_walk(f.node) if isinstance(r, ast.Return)]
    # what is returned, on the path effects: (load(<the file opened with encoding=E>), E) for the E of this iteration
    from .tables import closed as _closed0, sums_of as _tsums0
    n_ret = 0
    for s_ in _tsums0(ctx, f):
        if s_.end != "return":
            continue
        n_ret += 1
        k_, v_ = s_.terminal()
        withs = {e.value.id: e.target for e in s_.effects if e.kind == "with" and isinstance(e.value, ast.Name)}
        v_c = _closed0(s_, v_, keep=list(withs) + [ev_]) if v_ is not None else None
        good = False
        if isinstance(v_c, ast.Tuple) and len(v_c.elts) == 2 and isinstance(v_c.elts[1], ast.Name) and v_c.elts[1].id == ev_ and isinstance(v_c.elts[0], ast.Call) \
                and callee_name(ctx, f, v_c.elts[0]) == "simfile:load" and v_c.elts[0].args and isinstance(v_c.elts[0].args[0], ast.Name) and v_c.elts[0].args[0].id in withs:
            opened = withs[v_c.elts[0].args[0].id]
            kw_o = {k.arg: ast.unparse(k.value) for k in opened.keywords} if isinstance(opened, ast.Call) else {}
            good = kw_o.get("encoding") == ev_
        ctx.expect("R-FWD", f, "returns (load(<the opened file>), <the encoding it was opened with>)", good, ast.unparse(v_c) if v_c is not None else "",
                   f"return value is {ast.unparse(v_c) if v_c is not None else 'None'}", node=f.node)
    ctx.floor("result returns", n_ret, 1)
    # error discipline
    tries = [t for t in body_walk(f.node) if isinstance(t, ast.Try)]
    t = one(tries, f"try statement in {OWDE}")
    inside = any(n is w for st in t.body for n in walk_no_nested(st))
    ctx.expect("R-EXC", f, "open+load happen inside the try", inside and in_body(lp, t), "", "the with block is not inside the try inside the loop", node=t)
    hs = t.handlers
    good = len(hs) == 1 and isinstance(hs[0].type, ast.Name) and hs[0].type.id == "UnicodeDecodeError" and not t.finalbody
    ctx.expect("R-EXC", f, "only UnicodeDecodeError moves on to the next encoding", good, "",
               f"handlers: {[src(h.type) if h.type is not None else 'bare' for h in hs]}: any other error of loading must propagate, and a decode error must not", node=t)
    for h in hs:
        swallow_exit = [n for st in h.body for n in walk_no_nested(st) if isinstance(n, (ast.Return, ast.Break))]
        ctx.expect("R-EXC", f, "the handler continues with the next encoding", not swallow_exit, "", "the handler returns or leaves the loop", node=h)
    # after the loop: raise; no normal exit without a result
    ret_nodes = [cfg_node_of(cfg, f, r) for r in rets]
    bad = cfg.must_pass(ret_nodes)
    ctx.expect("R-EXC", f, "the only exit without a result raises", bad is None, "", "a path reaches the end of the function without returning a result or raising", node=f.node,
               ) if bad is None else ctx.bad("R-EXC", f, "the only exit without a result raises", "a path falls off the end (returns None)", node=f.node, path=cfg.describe_path(bad))
    post = [r for r in body_walk(f.node) if isinstance(r, ast.Raise) and not in_body(lp, r) and cfg.dominates(cfg.node_for(lp), cfg_node_of(cfg, f, r))]
    ok_raise = False
    for r in post:
        e = r.exc
        names = {n.id for n in ast.walk(e) if isinstance(n, ast.Name)} if e is not None else set()
        if "exception" in names or "UnicodeError" in names or "UnicodeDecodeError" in names:
            ok_raise = True
    ctx.expect("R-EXC", f, "when no encoding decodes, the kept UnicodeDecodeError is raised", ok_raise, "", "no raise of the recorded decode error after the loop", node=lp)
    # explicit encoding kwarg is refused here
    rej = False
    for r in [x for x in body_walk(f.node) if isinstance(x, ast.Raise)]:
        fs = facts(ctx, f, r)
        if any(pol and isinstance(a, ast.Compare) and isinstance(a.ops[0], ast.In) and try_ev(ctx, f, a.left) == "encoding" for a, pol in fs):
            rej = True
    ctx.expect("R-FWD", f, "an encoding keyword is refused rather than overriding the tried encoding", rej, "", "'encoding' in kwargs is not rejected: it would collide with encoding=<tried>", node=f.node)
    # open(): explicit encoding becomes the single tried encoding
    fo = p.func(OPEN)
    lo = locals_of(fo)
    enc_const = p.const("simfile", "ENCODINGS")

    def has_enc(fs):
        for a, pol in fs:
            if isinstance(a, ast.Compare) and len(a.ops) == 1 and isinstance(a.ops[0], (ast.In, ast.NotIn)) and try_ev(ctx, fo, a.left) == "encoding" \
                    and isinstance(a.comparators[0], ast.Name) and a.comparators[0].id == fo.has_kwargs():
                return pol if isinstance(a.ops[0], ast.In) else not pol
        return None

    def classify(e, at):
        if e is None:
            return "default"
        if isinstance(e, ast.Name) and e.id in lo.b and not lo.is_param(e.id):
            kinds = sorted(classify(b.value, b.node) if b.kind == "assign" else "other" for b in lo.b[e.id])
            return "name:" + ",".join(kinds)
        if try_ev(ctx, fo, e) == enc_const:
            return "default"
        if (isinstance(e, ast.List) and len(e.elts) == 1 and isinstance(e.elts[0], ast.Call) and isinstance(e.elts[0].func, ast.Attribute) and e.elts[0].func.attr == "pop"
                and isinstance(e.elts[0].func.value, ast.Name) and e.elts[0].func.value.id == fo.has_kwargs() and e.elts[0].args and try_ev(ctx, fo, e.elts[0].args[0]) == "encoding"):
            return "explicit" if has_enc(facts(ctx, fo, at)) is True else "explicit-unguarded"
        return "other:" + src(e, 60)

    # per path of open(): which encodings are tried - the caller's explicit encoding alone when `encoding=` was given, else the default list.
    # The key test is `'encoding' in kwargs`, or `kwargs.pop('encoding', <sentinel>) is <sentinel>` (the key is absent exactly then).
    from .tables import closed as _closed1, sums_of as _tsums1
    kwn = fo.has_kwargs()
    covered = set()
    n_paths = 0
    for s_ in _tsums1(ctx, fo):
        if s_.end == "raise":
            continue
        n_paths += 1
        asg = dict(s_.plain_assign())
        present = asg.get(f"'encoding' in {kwn}")
        pops = {}
        for e in s_.effects:
            if e.kind == "bind" and isinstance(e.target, ast.Name) and isinstance(e.value, ast.Call) and ast.unparse(e.value.func) == f"{kwn}.pop" and e.value.args and try_ev(ctx, fo, e.value.args[0]) == "encoding":
                d = e.value.args[1] if len(e.value.args) > 1 else None
                pops[e.target.id] = ast.unparse(d) if d is not None else None
        for x, d in pops.items():
            if d is not None:
                for kk in (f"{d} is {x}", f"{x} is {d}"):
                    if kk in asg:
                        present = not asg[kk]
        call = None
        for i_, e in enumerate(s_.effects):
            for n_ in (ast.walk(e.value) if isinstance(e.value, ast.AST) else []):
                if isinstance(n_, ast.Call) and callee_name(ctx, fo, n_) == OWDE:
                    call = (i_, n_)
        if call is None:
            ctx.bad("R-FWD", fo, "open() loads through open_with_detected_encoding", f"a path of open() under {asg} does not call it", node=fo.node)
            continue
        i_, c2 = call
        kw2 = {k.arg: k.value for k in c2.keywords}
        te = kw2.get("try_encodings", c2.args[1] if len(c2.args) > 1 else None)
        te_c = _closed1(s_, te, i_, keep=list(pops)) if te is not None else None
        te_t = ast.unparse(te_c) if te_c is not None else "<default of open_with_detected_encoding>"
        explicit_forms = {f"[{kwn}.pop('encoding')]"} | {f"[{x}]" for x in pops}
        default_forms = {repr(list(enc_const)), "ENCODINGS", "<default of open_with_detected_encoding>"}
        if present is True:
            good = te_t in explicit_forms
            covered.add("explicit")
        elif present is False:
            good = te_t in default_forms
            covered.add("default")
        else:
            good = False
        ctx.expect("R-FWD", fo, "open(): the tried encodings are [the explicit encoding] when encoding= is given, else ENCODINGS", good, te_t,
                   f"under {asg} try_encodings is {te_t}: an explicit encoding= must become the single tried encoding (and be removed from the keyword arguments), otherwise the default list applies", node=c2)
        fn_arg = c2.args[0] if c2.args else kw2.get("filename")
        ctx.expect("R-FWD", fo, "open() opens the caller's filename", fn_arg is not None and ast.unparse(fn_arg) == "filename" and lo.only_param("filename"), "", "", node=c2)
    ctx.floor("paths of open()", n_paths, 2)
    ctx.expect("R-FWD", fo, "open() handles both the default list and an explicit encoding", covered == {"default", "explicit"}, str(sorted(covered)), f"covered cases: {sorted(covered)}", node=fo.node)
    from .tables import closed as _closed, sums_of as _tsums
    outs = set()
    for s_ in _tsums(ctx, fo):
        k_, v_ = s_.terminal()
        if s_.end == "raise":
            continue
        v_ = _closed(s_, v_, opq=frozenset(n for n in (x.id for x in ast.walk(v_) if isinstance(x, ast.Name))) if v_ is not None else None)
        outs.add(ast.unparse(v_) if v_ is not None else "None")
    good = bool(outs) and all(o.startswith("open_with_detected_encoding(") and o.endswith(")[0]") for o in outs)
    ctx.expect("R-TABLE", fo, "open() returns the simfile element of the result", good, str(sorted(outs))[:200], f"open() returns {sorted(outs)}: not element 0 of open_with_detected_encoding(...) on every path", node=fo.node)


class MutateModel:
    """Facts about mutate() shared by C05 and C06."""

    def __init__(self, ctx: Ctx):
        p = ctx.p
        self.f = f = p.func(MUTATE)
        self.cfg = cfg = ctx.cfg(f)
        self.loc = loc = locals_of(f)
        require("contextlib.contextmanager" in [callee_dec(ctx, f, d) for d in f.node.decorator_list], f"{MUTATE} is not a @contextmanager")
        ys = [n for n in body_walk(f.node) if isinstance(n, (ast.Yield, ast.YieldFrom))]
        self.yield_ = one(ys, f"yield in {MUTATE}")
        self.ynode = cfg_node_of(cfg, f, self.yield_)
        oc = [c for c in calls(f) if callee_name(ctx, f, c) == OWDE]
        self.load_call = one(oc, f"call of open_with_detected_encoding in {MUTATE}")
        self.sim_var = self.enc_var = None
        for name, bs in loc.b.items():
            for b in bs:
                if b.value is self.load_call and b.index == (0,):
                    self.sim_var = name
                if b.value is self.load_call and b.index == (1,):
                    self.enc_var = name
        require(self.sim_var and self.enc_var, f"{MUTATE}: result of open_with_detected_encoding is not unpacked into (simfile, encoding)")
        self.writes: List[Dict[str, Any]] = []
        for c in calls(f):
            if is_open_call(ctx, f, c):
                mode = open_mode(ctx, f, c)
                if mode is None or set(mode) & WRITE_CHARS:
                    wi = parent(f, c)
                    w = parent(f, wi) if isinstance(wi, ast.withitem) else None
                    self.writes.append({"call": c, "mode": mode, "with": w if isinstance(w, ast.With) else None,
                                        "as": wi.optional_vars.id if isinstance(wi, ast.withitem) and isinstance(wi.optional_vars, ast.Name) else None,
                                        "target": inline(c.args[0], f) if c.args else None, "node": cfg_node_of(cfg, f, c)})
        tries = [t for t in body_walk(f.node) if isinstance(t, ast.Try) and any(n is self.yield_ for st in t.body for n in walk_no_nested(st))]
        self.try_ = one(tries, f"try statement around the yield in {MUTATE}")

    def role(self, w: Dict[str, Any]) -> str:
        t = w["target"]
        if isinstance(t, ast.Name) and t.id == "backup_filename":
            return "backup"
        if isinstance(t, ast.BoolOp) and isinstance(t.op, ast.Or) and sorted(getattr(v, "id", "") for v in t.values) == ["input_filename", "output_filename"]:
            return "output"
        return "other"


def callee_dec(ctx: Ctx, f: FunctionInfo, d: ast.expr) -> str:
    r = ctx.p.resolve_expr(f.module, d)
    return r.name if isinstance(r, External) else (r.fq if isinstance(r, (FunctionInfo, ClassInfo)) else "")


_mm: Dict[int, MutateModel] = {}


def model(ctx: Ctx) -> MutateModel:
    k = id(ctx.p)
    if k not in _mm:
        _mm[k] = MutateModel(ctx)
    return _mm[k]


def mutate_targets_and_encoding(ctx: Ctx) -> None:
    """C05.1/4: both write-mode opens use the detected encoding; targets are the backup name and output-or-input."""
    m = model(ctx)
    f = m.f
    ctx.floor("write-mode opens in mutate", len(m.writes), 2)
    kwl = {k.arg: k.value for k in m.load_call.keywords}
    ctx.expect("R-FWD", f, "mutate reads the input file", bool(m.load_call.args) and isinstance(m.load_call.args[0], ast.Name) and m.load_call.args[0].id == "input_filename"
               and m.loc.only_param("input_filename"), "", f"first argument is {src(m.load_call.args[0]) if m.load_call.args else 'absent'}", node=m.load_call)
    single = len(m.loc.b.get(m.enc_var, [])) == 1
    roles = []
    for w in m.writes:
        c = w["call"]
        kw = {k.arg: k.value for k in c.keywords}
        e = kw.get("encoding")
        role = m.role(w)
        roles.append(role)
        ctx.expect("R-FWD", f, f"{role} file is written in the detected encoding", isinstance(e, ast.Name) and e.id == m.enc_var and single,
                   f"encoding={src(e) if e is not None else 'absent'}", f"{src(c, 70)}: encoding is {src(e) if e is not None else 'not passed (platform default)'}, not the detected one", node=c)
        if role == "output":
            ctx.expect("R-EFFECT", f, "the output goes to output_filename when given, else to the input file", ast.unparse(w["target"]) == "output_filename or input_filename",
                       ast.unparse(w["target"]), f"target is {ast.unparse(w['target'])}: the input file would be overwritten although an output name was given", node=c)
        ctx.expect("R-EFFECT", f, f"write target of {src(c.func, 30)} is a documented one", role in ("backup", "output"), role,
                   f"{src(w['target']) if w['target'] is not None else '?'} is neither backup_filename nor 'output_filename or input_filename'", node=c)
        ctx.expect("R-EFFECT", f, f"{role} file is truncated and rewritten (mode 'w')", w["mode"] == "w", repr(w["mode"]), f"mode is {w['mode']!r}", node=c)
        recv = c.func.value if isinstance(c.func, ast.Attribute) else None
        ctx.expect("R-FWD", f, f"{role} file is written on the caller's filesystem", isinstance(recv, ast.Name) and recv.id == "filesystem" and m.loc.only_param("filesystem"),
                   "", f"receiver is {src(recv) if recv is not None else '-'}", node=c)
    ctx.expect("R-EFFECT", f, "one backup write and one output write", sorted(roles) == ["backup", "output"], str(roles), f"write roles are {roles}", node=f.node)
    # what the backup holds: the serialization taken before the yield
    for w in m.writes:
        if m.role(w) != "backup" or w["with"] is None:
            continue
        fs = facts(ctx, f, w["call"])
        common = set()
        for w2 in m.writes:
            if m.role(w2) == "output":
                common = {(norm(a), pol) for a, pol in facts(ctx, f, w2["call"])}
        own = [(a, pol) for a, pol in fs if (norm(a), pol) not in common
               and not (isinstance(a, ast.Compare) and isinstance(a.ops[0], (ast.In, ast.NotIn)) and isinstance(a.left, ast.Name) and a.left.id == "backup_filename")]
        ctx.expect("R-TABLE", f, "backup written exactly when a backup name was given", any(pol and isinstance(a, ast.Name) and a.id == "backup_filename" for a, pol in own)
                   and len(own) == 1, unparse_facts(own), f"backup is written under {unparse_facts(own)}", node=w["call"])


def mutate_name_check(ctx: Ctx) -> None:
    """C05.3: a backup name equal to the input or output name is refused before any write effect."""
    m = model(ctx)
    f, cfg = m.f, m.cfg
    tests = []
    for n in cfg.nodes:
        if n.kind == "test":
            for a in ast.walk(n.ast):
                if isinstance(a, ast.Compare) and len(a.ops) == 1 and isinstance(a.ops[0], ast.In) and isinstance(a.left, ast.Name) and a.left.id == "backup_filename":
                    t = a.comparators[0]
                    if isinstance(t, (ast.Tuple, ast.List, ast.Set)) and {getattr(e, "id", None) for e in t.elts} == {"input_filename", "output_filename"}:
                        tests.append((n.id, a))
    ctx.expect("R-ORDER", f, "name check compares the backup name with both other names", len(tests) >= 1, "", "no test 'backup_filename in (input_filename, output_filename)'", node=f.node)
    if not tests:
        return
    tn, atom = tests[0]
    raises_ok = False
    for r in [x for x in body_walk(f.node) if isinstance(x, ast.Raise)]:
        fs = facts(ctx, f, r)
        if any(pol and norm(a) == norm(atom) for a, pol in fs):
            e = r.exc.func if isinstance(r.exc, ast.Call) else r.exc
            raises_ok = isinstance(e, ast.Name) and e.id == "ValueError"
    ctx.expect("R-EXC", f, "a clashing backup name raises ValueError", raises_ok, "", "the name-check branch does not raise ValueError", node=f.node)
    effects = {w["node"] for w in m.writes} | {cfg_node_of(cfg, f, m.load_call)}
    pe = PathEnumerator(cfg, atoms=True, follow_exc=False, limit=20000)
    total = bad = 0
    witness = None
    for r in pe.paths():
        total += 1
        truthy = r.env.get("@backup_filename")
        for i, n in enumerate(r.nodes):
            if n in effects:
                if truthy is not False and tn not in r.nodes[:i]:
                    bad += 1
                    witness = witness or r.nodes[: i + 1]
                break
    if bad:
        ctx.bad("R-ORDER", f, "the name check precedes every filesystem effect", f"{bad} of {total} paths reach an open before the check", node=f.node, path=cfg.describe_path(witness))
    else:
        ctx.ok("R-ORDER", f, "the name check precedes every filesystem effect", f"{total} paths enumerated", node=f.node)
    ctx.floor("paths through mutate", total, 2)


def mutate_order(ctx: Ctx, failure_clauses: bool = True) -> None:
    """C05.4 / C06.3: backup data captured before the yield; backup block complete before the output is opened.
    With failure_clauses=False only what the fault-free behaviour (C05) depends on is judged."""
    m = model(ctx)
    f, cfg = m.f, m.cfg
    by_role = {m.role(w): w for w in m.writes}
    b, o = by_role.get("backup"), by_role.get("output")
    require(b is not None and o is not None, f"{MUTATE}: backup/output write sites not recognised")
    for role, w in (("backup", b), ("output", o)):
        require(w["with"] is not None and w["as"], f"{MUTATE}: {role} open is not a 'with ... as' item")
    # backup body: writer.write(<name bound before the yield to the serialization of the loaded simfile>)
    data_names = []
    for role, w in (("backup", b), ("output", o)):
        body_calls = [n for st in w["with"].body for n in walk_no_nested(st) if isinstance(n, ast.Call)]
        good_calls = []
        for c in body_calls:
            if (isinstance(c.func, ast.Attribute) and c.func.attr == "write" and isinstance(c.func.value, ast.Name) and c.func.value.id == w["as"]
                    and len(c.args) == 1 and isinstance(c.args[0], ast.Name) and not c.keywords):
                good_calls.append(c)
        others = [c for c in body_calls if c not in good_calls]
        if not failure_clauses:
            # C05 only needs to know what text is written; a serializer streaming into the writer writes the same text
            if len(good_calls) == 1:
                data_names.append((role, good_calls[0].args[0].id, w))
            elif role == "output" and any(isinstance(c.func, ast.Attribute) and c.func.attr == "serialize" and isinstance(c.func.value, ast.Name) and c.func.value.id == m.sim_var for c in body_calls):
                ctx.ok("R-TABLE", f, "output data is the serialization of the simfile", "streamed by simfile.serialize(writer)", node=w["with"])
            else:
                ctx.bad("R-TABLE", f, f"the {role} block writes the serialized simfile", f"{len(good_calls)} plain write(s), calls: {[src(c, 40) for c in body_calls]}", node=w["with"])
            continue
        for c in others:
            ctx.bad("R-ORDER", f, f"call inside the write-mode block of the {role} file: {src(c.func, 40)}()",
                    f"{src(c, 70)} runs after the file has been truncated; if it raises (unserializable value, unencodable character) the file is left cut short", node=c)
        ctx.expect("R-ORDER", f, f"the {role} block only writes a prepared string", len(good_calls) == 1 and not others, f"{len(good_calls)} write(s)",
                   f"{len(good_calls)} plain write(s), {len(others)} other call(s) inside the block", node=w["with"])
        if len(good_calls) == 1:
            data_names.append((role, good_calls[0].args[0].id, w))
    for role, name, w in data_names:
        bs = m.loc.b.get(name, [])
        for _hop in range(3):
            # a plain copy of another local (a temporary the inliner or a refactoring introduced): what is written is that local
            if len(bs) == 1 and bs[0].kind == "assign" and isinstance(bs[0].value, ast.Name) and bs[0].value.id in m.loc.b:
                name = bs[0].value.id
                bs = m.loc.b.get(name, [])
            else:
                break
        if len(bs) == 2 and all(x.kind == "assign" for x in bs) and role == "backup":
            # a constant default followed by the real definition under `if <name>:`, the write under the same never-reassigned name: on every
            # path that reaches the write the real definition is the one in force
            consts = [x for x in bs if isinstance(x.value, ast.Constant)]
            reals = [x for x in bs if not isinstance(x.value, ast.Constant)]
            if len(consts) == 1 and len(reals) == 1:
                def guard_of(node_):
                    for n_ in ast.walk(f.node):
                        if isinstance(n_, ast.If) and isinstance(n_.test, ast.Name) and not n_.orelse and any(x is node_ for x in n_.body):
                            return n_.test.id
                    return None
                g1, g2 = guard_of(reals[0].node), guard_of(w["with"])
                stored = {n_.id for n_ in ast.walk(f.node) if isinstance(n_, ast.Name) and isinstance(n_.ctx, ast.Store)}
                if g1 is not None and g1 == g2 and g1 not in stored and consts[0].node.lineno < reals[0].node.lineno:
                    bs = reals
        if len(bs) != 1 or bs[0].kind != "assign":
            ctx.bad("R-ORDER", f, f"{role} data '{name}' has a single definition", f"{len(bs)} bindings", node=w["with"])
            continue
        bn = cfg_node_of(cfg, f, bs[0].node)
        v = bs[0].value
        ser = [n for n in ast.walk(v) if isinstance(n, ast.Call) and isinstance(n.func, ast.Name) and n.func.id == "str" and len(n.args) == 1
               and isinstance(n.args[0], ast.Name) and n.args[0].id == m.sim_var]
        ctx.expect("R-TABLE", f, f"{role} data is the serialization of the simfile", len(ser) == 1, src(v), f"{name} = {src(v)}", node=bs[0].node)
        if role == "backup":
            before = cfg.dominates(bn, m.ynode) and bn != m.ynode
            if not before and bn != m.ynode:
                # computed under `if backup_filename:` ahead of the yield: never after it (not reachable from the yield), and the yield follows
                before = bn not in cfg.reachable(m.ynode, skip_exc=False) and m.ynode in cfg.reachable(bn, skip_exc=True)
            ctx.expect("R-ORDER", f, "backup data is captured before the caller's block runs", before, "",
                       "the backup text is computed after the yield: it would hold the edited simfile, not the original", node=bs[0].node)
            # conditional form: str(simfile) if backup_filename else ""
            if isinstance(v, ast.IfExp):
                ctx.expect("R-TABLE", f, "backup data is computed whenever a backup name was given",
                           isinstance(v.test, ast.Name) and v.test.id == "backup_filename" and any(n is ser[0] for n in ast.walk(v.body)) if ser else False, src(v), src(v), node=bs[0].node)
        elif not failure_clauses:
            ctx.expect("R-ORDER", f, "output data is serialized after the caller's block", cfg.dominates(m.ynode, bn), "",
                       "the output text is computed before the yield: the caller's edits would be lost", node=bs[0].node)
        else:
            ctx.expect("R-ORDER", f, "output data is serialized after the caller's block and before any file is opened for writing",
                       cfg.dominates(m.ynode, bn) and all(cfg.dominates(bn, w2["node"]) or m.role(w2) == "other" for w2 in m.writes), "",
                       "the output text is not computed between the yield and the first write-mode open", node=bs[0].node)
            encs = [] if not failure_clauses else [c for c in method_calls(f, "encode") if isinstance(c.func.value, ast.Name) and c.func.value.id == name and c.args
                    and isinstance(c.args[0], ast.Name) and c.args[0].id == m.enc_var]
            good = any(all(cfg.dominates(cfg_node_of(cfg, f, c), w2["node"]) for w2 in m.writes) for c in encs)
            if failure_clauses:
              ctx.expect("R-ORDER", f, "output data is encoded in the detected encoding before any file is opened for writing", good, f"{len(encs)} encode check(s)",
                       "no '<output text>.encode(<detected encoding>)' dominates the write-mode opens: an unencodable character raises after truncation", node=w["with"])
    # block order: backup closed before output opened; never the other way round
    if not failure_clauses:
        for role, w in (("backup", b), ("output", o)):
            ctx.expect("R-ORDER", f, f"the {role} file is opened only after the caller's block", cfg.dominates(m.ynode, w["node"]), "", f"{role} open is not dominated by the yield", node=w["call"])
        bad = cfg.must_pass([o["node"]], start=m.ynode)
        ctx.expect("R-ORDER", f, "a normal exit of the block always writes the output", bad is None, "", "a path from the yield to the normal exit skips the output write", node=o["call"])
        return
    b_enter, o_enter = cfg.node_for(b["with"]), cfg.node_for(o["with"])
    b_exit = [n.id for n in cfg.nodes if n.kind == "with_exit" and n.stmt is b["with"] and n.note == "normal"]
    nested = any(n is o["with"] for st in b["with"].body for n in walk_no_nested(st)) or any(n is b["with"] for st in o["with"].body for n in walk_no_nested(st))
    after = o_enter in cfg.reachable(b_enter, skip_exc=True) and o_enter not in cfg.reachable(b_enter, removed=b_exit, skip_exc=True)
    back = b_enter in cfg.reachable(o_enter, skip_exc=True)
    ctx.expect("R-ORDER", f, "the backup is written and closed before the output file is opened", after and not back and not nested, "",
               "the output open is reachable before the backup block has completed (or the backup is written after the output)", node=o["with"])
    # both happen only after the yield returned normally
    for role, w in (("backup", b), ("output", o)):
        ctx.expect("R-ORDER", f, f"the {role} file is opened only after the caller's block", cfg.dominates(m.ynode, w["node"]), "", f"{role} open is not dominated by the yield", node=w["call"])
    # output is written on every normal completion
    bad = cfg.must_pass([o["node"]], start=m.ynode)
    ctx.expect("R-ORDER", f, "a normal exit of the block always writes the output", bad is None, "", "a path from the yield to the normal exit skips the output write",
               node=o["call"]) if bad is None else ctx.bad("R-ORDER", f, "a normal exit of the block always writes the output", "a path from the yield to the normal exit skips the output write",
                                                           node=o["call"], path=cfg.describe_path(bad))
    seq = ["check", "read:" + src(m.load_call.func), "serialize(backup)", "yield", "serialize(output)", "encode(output)", "open_b,write_b,close_b", "open_o,write_o,close_o"]
    ctx.notes.append("effect sequence on the success path: " + " -> ".join(seq))


def mutate_handlers(ctx: Ctx) -> None:
    """C06.1: CancelMutation is the only swallowed class; everything else propagates unchanged; handlers write nothing."""
    m = model(ctx)
    f, cfg, t = m.f, m.cfg, m.try_
    p = ctx.p
    cm = p.cls("simfile.CancelMutation")
    bases = [b.name if isinstance(b, External) else b.fq for b in cm.bases]
    ctx.expect("R-EXC", cm, "CancelMutation derives from BaseException only", bases == ["builtins.BaseException"], str(bases),
               f"bases are {bases}: as an Exception subclass it would be caught by user code inside the block", node=cm.node)
    # the yield is the only statement of the try body that can see the caller's exception
    ctx.expect("R-EXC", f, "the try body is just the yield", len(t.body) == 1 and any(n is m.yield_ for n in walk_no_nested(t.body[0])), "", "", node=t)
    write_nodes = {w["node"] for w in m.writes}
    seen_cancel = False
    for i, h in enumerate(t.handlers):
        hn = [n.id for n in cfg.nodes if n.kind == "except" and n.ast is h][0]
        reach = cfg.reachable(hn, skip_exc=True)
        tname = src(h.type) if h.type is not None else "bare except"
        is_cancel = h.type is not None and isinstance(p.resolve_expr(f.module, h.type), ClassInfo) and p.resolve_expr(f.module, h.type).fq == cm.fq
        ctx.expect("R-EXC", f, f"handler {tname}: no write effect reachable", not (reach & write_nodes), "",
                   f"a write-mode open is reachable from the '{tname}' handler: a failed or cancelled block would still write", node=h)
        effs = [c for st in h.body for c in walk_no_nested(st) if isinstance(c, ast.Call)]
        if is_cancel:
            seen_cancel = True
            ctx.expect("R-EXC", f, "CancelMutation is swallowed (handler returns, nothing else)", cfg.exit in reach and not effs, "", "", node=h)
            ctx.expect("R-EXC", f, "CancelMutation is matched before any broader handler", i == 0 or all(x.type is not None for x in t.handlers[:i]), "", "", node=h)
        else:
            # must re-raise unchanged on every path: bare `raise`
            raises = [n for st in h.body for n in walk_no_nested(st) if isinstance(n, ast.Raise)]
            bare = all(r.exc is None and r.cause is None for r in raises) and bool(raises)
            falls = cfg.exit in reach
            ctx.expect("R-EXC", f, f"handler {tname} re-raises the caller's exception unchanged", bare and not falls and not effs, "",
                       f"the '{tname}' handler {'swallows the exception (normal exit reachable)' if falls else 'raises something else or has side effects'}", node=h)
    ctx.expect("R-EXC", f, "CancelMutation has its own handler", seen_cancel, "", "no 'except CancelMutation' around the yield", node=t)
    if t.finalbody:
        fin_calls = [c for st in t.finalbody for c in walk_no_nested(st) if isinstance(c, ast.Call)]
        ctx.expect("R-EXC", f, "no effect in a finally block", not fin_calls, "", "a finally block around the yield runs on failure too", node=t)
    # writes are reachable from the yield only along normal edges
    ok_all = all(w["node"] in cfg.reachable(m.ynode, skip_exc=True) for w in m.writes)
    ctx.expect("R-ORDER", f, "write effects lie on the normal continuation of the yield", ok_all, "", "", node=t)
    # nothing between function entry and the yield writes
    pre = [w for w in m.writes if not cfg.dominates(m.ynode, w["node"])]
    ctx.expect("R-ORDER", f, "nothing is written before the caller's block has completed", not pre, "", f"{len(pre)} write(s) not dominated by the yield", node=f.node)


def serialization_fails_loudly(ctx: Ctx) -> None:
    """C06: the up-front 'str(simfile)' in mutate() protects the files only if a failing serialize() raises out of str():
    no handler around it swallows, no finally block returns / breaks (which discards the exception in flight)."""
    p = ctx.p
    f = p.func("simfile._private.serializable:Serializable.__str__")
    tries = [t for t in body_walk(f.node) if isinstance(t, ast.Try)]
    n = 0
    for t in tries:
        for st in t.finalbody:
            for x in walk_no_nested(st):
                if isinstance(x, (ast.Return, ast.Break, ast.Continue)):
                    n += 1
                    ctx.bad("R-EXC", f, f"{type(x).__name__.lower()} inside a finally block of __str__", "leaving a finally block with return / break / continue discards the exception in flight: a serialize() that fails "
                            "part-way would make str(simfile) return the partial text, and mutate() would write it over the input file", node=x)
        for h in t.handlers:
            raises = [x for st in h.body for x in walk_no_nested(st) if isinstance(x, ast.Raise)]
            if not raises:
                n += 1
                ctx.bad("R-EXC", f, f"handler '{src(h.type) if h.type is not None else 'bare except'}' in __str__ swallows the failure", "a serialization failure would return text instead of raising", node=h)
    if not n:
        ctx.ok("R-EXC", f, "a failing serialize() propagates out of str()", f"{len(tries)} try statement(s), none swallowing", node=f.node)
    cfg = ctx.cfg(f)
    sc = [c for c in calls(f) if isinstance(c.func, ast.Attribute) and c.func.attr == "serialize"]
    ctx.floor("serialize() calls in Serializable.__str__", len(sc), 1)


def save_sequence(ctx: Ctx, failure: bool = True) -> None:
    """C05 / C06: what mutate() does on each path, as a decision table over (backup name given, backup name clashes) -> the sequence of
    effects.  Tokens are derived from the path effects' closed forms: 'load', 'yield', 'encode-check', 'open <target>', 'write <which text>'.
    With failure=False (C05) the encode check is not demanded and a serializer streamed into the open output counts as writing the edited text."""
    from ..decide import IGNORE
    from .tables import Dec, closed, judge as tjudge, sums_of as tsums
    p = ctx.p
    f = p.func(MUTATE)
    sums = tsums(ctx, f)
    BF, CLASH = "backup_filename", "backup_filename in (input_filename, output_filename)"

    def is_str_sim(v: Optional[ast.AST], sim: str) -> bool:
        return isinstance(v, ast.Call) and isinstance(v.func, ast.Name) and v.func.id == "str" and len(v.args) == 1 and not v.keywords and isinstance(v.args[0], ast.Name) and v.args[0].id == sim

    decs = []
    for s_ in sums:
        toks: List[str] = []
        sim = enc = None
        yi: Optional[int] = None
        texts: Dict[str, str] = {}  # local name -> 'original text' / 'edited text'
        open_target: Optional[str] = None
        wvar: Optional[str] = None
        for i, e in enumerate(s_.effects):
            v = e.value
            if e.kind == "raise":
                ex = v.func if isinstance(v, ast.Call) else v
                toks.append("raise " + (ast.unparse(ex) if ex is not None else ""))
            elif e.kind == "yield":
                yi = i
                toks.append("yield " + (ast.unparse(v) if v is not None else "None"))
            elif e.kind == "bind" and isinstance(v, ast.Call) and callee_name(ctx, f, v) == OWDE:
                if isinstance(e.target, ast.Tuple) and len(e.target.elts) == 2 and all(isinstance(x, ast.Name) for x in e.target.elts):
                    sim, enc = e.target.elts[0].id, e.target.elts[1].id
                toks.append("load")
            elif e.kind == "bind" and isinstance(e.target, ast.Name) and sim is not None and is_str_sim(v, sim):
                texts[e.target.id] = "original text" if yi is None else "edited text"
            elif e.kind == "bind" and isinstance(e.target, ast.Name) and isinstance(v, ast.Constant):
                continue
            elif e.kind == "with" and isinstance(e.target, ast.Call) and is_open_call(ctx, f, e.target):
                mode = open_mode(ctx, f, e.target)
                tgt = ast.unparse(e.target.args[0]) if e.target.args else "?"
                if mode is None or set(mode) & WRITE_CHARS:
                    open_target = tgt
                    wvar = e.value.id if isinstance(e.value, ast.Name) else None
                    toks.append(f"open {tgt} mode {mode!r}")
                else:
                    toks.append(f"open-read {tgt}")
            elif e.kind == "expr" and isinstance(v, ast.Call) and isinstance(v.func, ast.Attribute):
                recv, meth = v.func.value, v.func.attr
                if meth == "write" and isinstance(recv, ast.Name) and recv.id == wvar and len(v.args) == 1 and not v.keywords:
                    a = v.args[0]
                    if isinstance(a, ast.Name) and a.id in texts:
                        toks.append(f"write {texts[a.id]} to {open_target}")
                    elif sim is not None and is_str_sim(a, sim):
                        toks.append(f"write str({sim}) computed inside the open block to {open_target}")
                    else:
                        toks.append(f"write {ast.unparse(a)} to {open_target}")
                elif meth == "encode" and ((isinstance(recv, ast.Name) and texts.get(recv.id) == "edited text") or (sim is not None and is_str_sim(recv, sim) and yi is not None)) \
                        and v.args and isinstance(v.args[0], ast.Name) and v.args[0].id == enc and open_target is None:
                    if failure:
                        toks.append("encode-check of the edited text in the detected encoding")
                elif meth == "serialize" and isinstance(recv, ast.Name) and recv.id == sim and len(v.args) == 1 and isinstance(v.args[0], ast.Name) and v.args[0].id == wvar and wvar is not None:
                    toks.append(f"write edited text to {open_target}" if not failure and yi is not None else f"stream {sim}.serialize() into the open {open_target}")
                else:
                    toks.append("other " + ast.unparse(v))
            elif e.kind == "expr" and isinstance(v, ast.Call):
                toks.append("other " + ast.unparse(v))
            elif e.kind in ("store", "aug", "delete"):
                toks.append("other " + e.text)
        decs.append(Dec(dict(s_.plain_assign()), tuple(toks), s_))
    ctx.floor("paths through mutate()", len(decs), 1)
    out = "output_filename or input_filename"

    def spec(a):
        if a[BF] and a[CLASH]:
            return ("raise ValueError",)
        if not a[BF] and a[CLASH]:
            return IGNORE
        seq = ["load", "yield simfile"]
        if failure:
            seq.append("encode-check of the edited text in the detected encoding")
        if a[BF]:
            seq += ["open backup_filename mode 'w'", "write original text to backup_filename"]
        seq += [f"open {out} mode 'w'", f"write edited text to {out}"]
        return tuple(seq)

    def fix(d: Dec) -> Dec:
        # the loaded simfile's local name is the repository's choice
        # 'output_filename or input_filename' decided as a branch: the chosen name stands for the same target
        of = d.assign.get("output_filename")
        chosen = {True: "output_filename", False: "input_filename"}.get(of)

        def canon_t(t: str) -> str:
            if t.startswith("yield ") and "load" in d.outcome and t == "yield " + _sim_name(d):
                return "yield simfile"
            if chosen is not None:
                for pre in ("open ", "write edited text to ", "write original text to "):
                    if t.startswith(pre) and (t[len(pre):] == chosen or t[len(pre):].startswith(chosen + " mode")):
                        return pre + out + t[len(pre) + len(chosen):]
            return t

        return Dec(d.assign, tuple(canon_t(t) for t in d.outcome), d.src)

    def _sim_name(d: Dec) -> str:
        for e in d.src.effects:
            if e.kind == "bind" and isinstance(e.target, ast.Tuple) and e.target.elts and isinstance(e.target.elts[0], ast.Name) and isinstance(e.value, ast.Call) and callee_name(ctx, f, e.value) == OWDE:
                return e.target.elts[0].id
        return "?"

    decs = [fix(d) for d in decs]
    what = ("a clashing backup name is refused before anything happens; otherwise: load, hand the simfile to the caller, then " + ("serialize and encode the result completely, " if failure else "") +
            "write the ORIGINAL text to the backup exactly when a backup name was given, then the EDITED text to the output (or input) file - and nothing else, whatever else holds")
    tjudge(ctx, "R-ORDER", f, what, decs, [BF, CLASH], spec, dont_care=["output_filename"], feasible=lambda a: not (a[CLASH] and not a[BF]),
           why="a requested backup that is skipped, a text computed after truncation, or a write under another condition loses data exactly when saving fails")
