"""
R-DIM: a small units-of-measure checker (beat, second, minute) over the
arithmetic of the timing engine.  Term-level; nothing is executed.
"""
from __future__ import annotations

import ast
from typing import Any, Callable, Dict, Optional, Tuple

Unit = Tuple[Tuple[str, int], ...]

ANY = "any"  # unit-polymorphic (numeric literal in an additive position, zero)


def unit(**kw: int) -> Unit:
    return tuple(sorted((k, v) for k, v in kw.items() if v))


NONE: Unit = ()
BEAT = unit(beat=1)
SEC = unit(s=1)
BPM = unit(beat=1, min=-1)
SEC_PER_MIN = unit(s=1, min=-1)

WRAPPERS = {"float", "int", "abs", "round", "Beat", "SongTime", "Decimal", "cast", "Fraction"}


class DimError(Exception):
    pass


def mul(a: Unit, b: Unit, sign: int = 1) -> Unit:
    d: Dict[str, int] = dict(a)
    for k, v in b:
        d[k] = d.get(k, 0) + sign * v
    return tuple(sorted((k, v) for k, v in d.items() if v))


def show(u: Any) -> str:
    if u == ANY:
        return "any"
    if not u:
        return "1"
    return "*".join(k if v == 1 else f"{k}^{v}" for k, v in u)


def dim(e: ast.expr, env: Callable[[ast.expr], Any]) -> Any:
    """Unit of *e*.  *env* maps a leaf expression (Name / Attribute / Call) to a Unit, ANY, or None (unknown)."""
    known = env(e)
    if known is not None:
        return known
    if isinstance(e, ast.Constant) and isinstance(e.value, (int, float)) and not isinstance(e.value, bool):
        return ANY
    if isinstance(e, ast.UnaryOp) and isinstance(e.op, (ast.USub, ast.UAdd)):
        return dim(e.operand, env)
    if isinstance(e, ast.Call) and isinstance(e.func, ast.Name) and e.func.id in WRAPPERS and e.args:
        u = dim(e.args[-1] if e.func.id == "cast" else e.args[0], env)
        # the value types carry a unit: Beat(x) snaps x to the 1/48-beat grid, SongTime(x) is seconds
        if e.func.id == "Beat" and len(e.args) == 1 and u not in (ANY, BEAT):
            raise DimError(f"'{ast.unparse(e)}' makes a Beat of a quantity in {show(u)}: Beat() snaps inexact values to the 1/48-beat grid, which rounds a BPM / a time")
        if e.func.id == "SongTime" and u not in (ANY, SEC):
            raise DimError(f"'{ast.unparse(e)}' makes a SongTime of a quantity in {show(u)}")
        return u
    if isinstance(e, ast.BinOp):
        if isinstance(e.op, (ast.Add, ast.Sub)):
            a, b = dim(e.left, env), dim(e.right, env)
            if a == ANY:
                return b
            if b == ANY:
                return a
            if a != b:
                raise DimError(f"'{ast.unparse(e)}' adds {show(a)} to {show(b)}")
            return a
        if isinstance(e.op, (ast.Mult, ast.Div)):
            def factor(x: ast.expr) -> Unit:
                if isinstance(x, ast.Constant) and isinstance(x.value, (int, float)):
                    return SEC_PER_MIN if x.value == 60 else NONE
                u = dim(x, env)
                return NONE if u == ANY else u
            a, b = factor(e.left), factor(e.right)
            return mul(a, b, 1 if isinstance(e.op, ast.Mult) else -1)
    raise DimError(f"no unit known for '{ast.unparse(e)}'")
