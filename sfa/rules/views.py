"""
Attribute / key views (property C18).
"""
from __future__ import annotations

import ast
from typing import Any, Dict, List, Optional, Tuple

from ..engine import AnalysisError, ClassInfo, External, FunctionInfo, body_walk, norm, src, walk_no_nested
from ..flow import locals_of
from ..pat import match, matches
from ..report import Ctx
from .common import callee, callee_name, calls, facts, one, require, self_attr, try_ev, unparse_facts

PROP = "simfile._private.property:item_property"
SPEC_ALIASES = {("simfile.sm.SMSimfile", "stops"): ("STOPS", "FREEZES"), ("simfile.base.BaseSimfile", "bgchanges"): ("BGCHANGES", "ANIMATIONS"),
                ("simfile.ssc.SSCChart", "notes"): ("NOTES", "NOTES2")}


def _body(f: FunctionInfo) -> List[ast.stmt]:
    return [s for s in f.node.body if not (isinstance(s, ast.Expr) and isinstance(s.value, ast.Constant))]


def key_chooser(ctx: Ctx) -> None:
    """C18.1: get / set / delete act on one key: the alias exactly when the standard key is absent and the alias is present."""
    p = ctx.p
    ip = p.func(PROP)
    name, alias = ip.param_names()[:2]
    from .tables import function_decs, judge, sums_of
    accs = {"get": ip.nested.get("item_property"), "set": ip.nested.get("item_property@setter"), "del": ip.nested.get("item_property@deleter")}
    call_form = False
    if any(f is None for f in accs.values()):
        # the other spelling of the same object: return property(fget, fset, fdel) over nested functions / lambdas
        rr0 = [r for r in body_walk(ip.node) if isinstance(r, ast.Return)]
        if len(rr0) == 1 and isinstance(rr0[0].value, ast.Call) and isinstance(rr0[0].value.func, ast.Name) and rr0[0].value.func.id == "property" \
                and len(rr0[0].value.args) + len(rr0[0].value.keywords) == 3:
            c = rr0[0].value
            parts = dict(zip(("get", "set", "del"), c.args))
            for kw in c.keywords:
                if kw.arg in ("fget", "fset", "fdel"):
                    parts[{"fget": "get", "fset": "set", "fdel": "del"}[kw.arg]] = kw.value
            from ..engine import FunctionInfo as _FI
            for k in ("get", "set", "del"):
                e = parts.get(k)
                if isinstance(e, ast.Name) and e.id in ip.nested:
                    accs[k] = ip.nested[e.id]
                elif isinstance(e, ast.Lambda):
                    fd = ast.FunctionDef(name=f"_{k}", args=e.args, body=[ast.Return(value=e.body)], decorator_list=[], returns=None, type_comment=None, type_params=[])
                    ast.copy_location(fd, e)
                    ast.fix_missing_locations(fd)
                    accs[k] = _FI(module=ip.module, qualname=f"{ip.qualname}.<{k}>", node=fd, cls=None, parent=ip)
            call_form = all(f is not None for f in accs.values())
    for k, f in accs.items():
        require(f is not None, f"item_property accessor '{k}' not found")

    def effect_of(kind: str, f: FunctionInfo):
        def out(s_):
            eff = [e for e in s_.effects if e.kind in ("store", "delete", "return", "raise", "expr", "aug", "yield")]
            return tuple(e.text for e in eff)
        return out

    for k, f in accs.items():
        s = f.param_names()[0]
        A, B, C = f"{name} in {s}", alias, f"{alias} in {s}"
        chosen = lambda a: alias if ((not a[A]) and a[B] and a[C]) else name
        if k == "get":
            spec = lambda a, s=s: (f"return {s}.get({chosen(a)})",)
            title = "reading the attribute returns mapping.get(<chosen key>) (None when absent); the alias is chosen exactly when the standard key is absent and the alias is present"
        elif k == "set":
            v = f.param_names()[1]
            spec = lambda a, s=s, v=v: (f"{s}[{chosen(a)}] = {v}",)
            title = "assigning the attribute stores under the chosen key (the alias exactly when the standard key is absent and the alias is present)"
        else:
            spec = lambda a, s=s: (f"delete {s}[{chosen(a)}]",)
            title = "deleting the attribute deletes the chosen key (KeyError when absent)"
        decs = function_decs(sums_of(ctx, f), effect_of(k, f))
        judge(ctx, "R-TABLE" if k == "get" else "R-CLONE", f, title, decs, [A, B, C], spec, equiv={f"{alias} is None": (B, False)},
              why="all three accessors must agree on the key: 'name' unless it is absent and the alias is present")
    rr = [r for r in body_walk(ip.node) if isinstance(r, ast.Return)]
    if call_form:
        ctx.ok("R-CLONE", ip, "item_property returns the property object with all three accessors", "property(fget, fset, fdel)", node=ip.node)
        ctx.ok("R-CLONE", ip, "accessors are property / .setter / .deleter of one property", "property(fget, fset, fdel)", node=ip.node)
        return
    ctx.expect("R-CLONE", ip, "item_property returns the property object with all three accessors", len(rr) == 1 and ast.unparse(rr[0].value) == "item_property", "", "", node=ip.node)
    decos = {k: f.decorators() for k, f in accs.items()}
    ctx.expect("R-CLONE", ip, "accessors are property / .setter / .deleter of one property", decos == {"get": ["property"], "set": ["item_property.setter"], "del": ["item_property.deleter"]}, str(decos), str(decos), node=ip.node)


def declarations(ctx: Ctx) -> None:
    """C18.2/3: attribute name = lower-cased key for every declaration; the alias table equals the documented one."""
    p = ctx.p
    n = 0
    aliases = {}
    for ci in p.nontest_classes():
        for attr, d in p.own_descriptors(ci).items():
            n += 1
            ctx.expect("R-TABLE", ci, f"{ci.name}.{attr} <-> {d.key}", attr == d.key.lower() and d.key == d.key.upper(), "",
                       f"attribute '{attr}' is declared for key {d.key!r}: SMChart.__getitem__ (getattr(self, key.lower())) and the documented attribute names rely on attr == key.lower()", node=ci.node)
            if d.alias:
                aliases[(ci.fq, attr)] = (d.key, d.alias)
    ctx.expect("R-TABLE", ("simfile", ""), "alias table == {SMSimfile.stops: FREEZES, BaseSimfile.bgchanges: ANIMATIONS, SSCChart.notes: NOTES2}", aliases == SPEC_ALIASES, str(aliases), f"aliases declared: {aliases}")
    if aliases == SPEC_ALIASES:
        ctx.floor("item_property declarations", n, 69)
    # an override of an aliased property in a subclass must not drop the alias silently (except where documented)
    for ci in p.nontest_classes():
        own = p.own_descriptors(ci)
        for base in p.mro(ci)[1:]:
            if isinstance(base, ClassInfo):
                for attr, bd in p.own_descriptors(base).items():
                    if attr in own and bd.alias and own[attr].alias != bd.alias:
                        ctx.bad("R-TABLE", ci, f"{ci.name}.{attr} overrides an aliased property", f"{base.name}.{attr} has alias {bd.alias}, the override {own[attr]!r} does not", node=ci.node)


def smchart_guards(ctx: Ctx) -> None:
    """C18.4: SMChart overrides every key-changing method; each refuses keys outside the six fields."""
    p = ctx.p
    ci = p.cls("simfile.sm.SMChart")
    table = tuple(p.const("simfile.sm", "SM_CHART_PROPERTIES"))
    for m in ("update", "pop", "popitem", "__delitem__"):
        f = ci.methods.get(m)
        if f is None:
            ctx.bad("R-TABLE", ci, f"SMChart.{m} is overridden", f"SMChart inherits {m} from OrderedDict: keys can be added or removed", node=ci.node)
            continue
        b = _body(f)
        ok = len(b) == 1 and isinstance(b[0], ast.Raise) and b[0].exc is not None
        ctx.expect("R-TABLE", ci, f"SMChart.{m} refuses unconditionally", ok, "", "; ".join(ast.unparse(x) for x in b), node=f.node)
    gi = ci.methods.get("__getitem__")
    si = ci.methods.get("__setitem__")
    require(gi is not None and si is not None, "SMChart.__getitem__/__setitem__ not found")
    kp = gi.param_names()[1]
    outs = {}
    for n in body_walk(gi.node):
        if isinstance(n, (ast.Return, ast.Raise)):
            fs = facts(ctx, gi, n)
            pol = None
            for a, po in fs:
                if isinstance(a, ast.Compare) and isinstance(a.ops[0], (ast.In, ast.NotIn)) and ast.unparse(a.left) in (kp, f"{kp}.upper()"):
                    t = try_ev(ctx, gi, a.comparators[0])
                    if t is not None and tuple(t) == table:
                        pol = po if isinstance(a.ops[0], ast.In) else not po
            outs[pol] = n
    okg = isinstance(outs.get(True), ast.Return) and matches("getattr($s, $k.lower())", outs[True].value) and isinstance(outs.get(False), ast.Raise) and len(outs) == 2
    ctx.expect("R-TABLE", gi, "chart[key] reads the field attribute for the six keys and raises KeyError otherwise", okg, "", "", node=gi.node)
    from .tables import function_decs, judge as tjudge, sums_of as tsums, terminal_text, closed
    kp, vp = si.param_names()[1:3]
    IN = f"{kp}.upper() in {tuple(sorted(table))!r}"

    def out(s_):
        k_, v_ = s_.terminal()
        if k_ == "raise":
            return terminal_text(s_)
        calls_ = [e for e in s_.effects if e.kind in ("expr", "return") and isinstance(e.value, ast.Call)]
        v_ = closed(s_, v_) if v_ is not None else (closed(s_, calls_[-1].value) if calls_ else None)
        others = [e.text for e in s_.effects if e.kind in ("store", "aug", "delete")]
        return "store " + (ast.unparse(v_) if v_ is not None else "nothing") + (f" after {others}" if others else "")

    tjudge(ctx, "R-TABLE", si, "chart[key] = v stores exactly v under exactly key for the six keys, and raises KeyError otherwise", function_decs(tsums(ctx, si), out), [IN],
           lambda a: f"store super().__setitem__({kp}, {vp})" if a[IN] else "raise KeyError", why="a value changed on the way into the chart (trimmed, defaulted) is a chart field that does not hold what was assigned or converted")
    for m in ("clear", "setdefault", "__ior__"):
        if m not in ci.methods:
            ctx.observe("R-TABLE", ci, f"SMChart.{m} is inherited", "outside the property's operation set")


def equality(ctx: Ctx, sm_chart: bool = True) -> None:
    """C18.5: equality reads exactly the mapping's content (and the charts)."""
    p = ctx.p
    from .tables import function_decs, judge, sums_of, terminal_text

    def predicate_table(f: FunctionInfo, atoms, title):
        decs = function_decs(sums_of(ctx, f, bool_returns=True))
        judge(ctx, "R-TABLE", f, title, decs, atoms, lambda a: "return True" if all(a.values()) else "return False")

    f = p.func("simfile.base:BaseSimfile.__eq__")
    s, o = f.param_names()
    predicate_table(f, [f"type({s}) is type({o})", f"OrderedDict.__eq__({s}, {o})", f"{s}.charts == {o}.charts"], "simfile equality = same type and same ordered mapping and same charts")
    ne = p.func("simfile.base:BaseSimfile.__ne__")
    s2, o2 = ne.param_names()
    decs = function_decs(sums_of(ctx, ne, bool_returns=True))
    judge(ctx, "R-TABLE", ne, "!= is the negation of ==", decs, [f"{s2}.__eq__({o2})"], lambda a: "return False" if a[f"{s2}.__eq__({o2})"] else "return True",
          equiv={f"{s2} == {o2}": (f"{s2}.__eq__({o2})", True)})
    if sm_chart:
        ce = p.func("simfile.sm:SMChart.__eq__")
        s, o = ce.param_names()
        desc = p.descriptors(p.cls("simfile.sm.SMChart"))
        fields = [a for a, d in desc.items() if d.key in p.const("simfile.sm", "SM_CHART_PROPERTIES")]
        predicate_table(ce, [f"type({s}) is type({o})"] + [f"{s}.{a} == {o}.{a}" for a in fields], "SM chart equality = same type and the six fields equal")
    for cls in ("simfile.ssc.SSCChart", "simfile.ssc.SSCSimfile", "simfile.sm.SMSimfile"):
        ci = p.cls(cls)
        ctx.expect("R-TABLE", ci, f"{ci.name} does not override mapping access", not ({"__getitem__", "__setitem__", "__delitem__", "get", "__contains__", "__iter__", "keys", "items", "values", "__eq__"} & set(ci.methods)),
                   "", f"overrides: {sorted(set(ci.methods))}", node=ci.node)
