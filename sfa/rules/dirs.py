"""
Directory / pack discovery and asset lookup (properties C19, C20).
"""
from __future__ import annotations

import ast
import re
from typing import Any, Dict, List, Optional, Set, Tuple

from ..engine import AnalysisError, ClassInfo, External, FunctionInfo, RecordVal, body_walk, norm, src, walk_no_nested
from ..flow import cfg_node_of, inline, locals_of
from ..pat import find, match, matches
from ..report import Ctx
from .callgraph import callgraph
from .common import (callee, callee_name, calls, facts, for_loops, in_body, loop_must_pass, method_calls, one, parent, require, self_attr,
                     try_ev, unparse_facts)

SD = "simfile.dir:SimfileDirectory"
SP = "simfile.dir:SimfilePack"
AS = "simfile.assets:Assets"
EXT = "simfile._private.extensions"
SPEC_IMAGE = (".png", ".jpg", ".jpeg", ".gif", ".bmp")
SPEC_AUDIO = {".mp3", ".oga", ".ogg", ".wav"}
SPEC_PRESETS = {
    "BANNER": {("", "banner", ""), ("", "bn", "$")},
    "BACKGROUND": {("", "background", ""), ("", "bg", "$")},
    "CDTITLE": {("", "cdtitle", "")},
    "JACKET": {("^", "jk_", ""), ("", "jacket", ""), ("", "albumart", "")},
    "CDIMAGE": {("", "-cd", "$")},
}


def extension_match(ctx: Ctx) -> None:
    p = ctx.p
    f = p.func(f"{EXT}:match")
    path = f.param_names()[0]
    exts = f.node.args.vararg.arg if f.node.args.vararg else None
    require(exts is not None, f"{f.fq}: no *extensions parameter")
    from .tables import Dec, judge as tjudge, sums_of as tsums, terminal_and_exit
    from ..decide import key as ckey
    sums = tsums(ctx, f)
    loops = {(ast.unparse(e.target), e.line) for s_ in sums for e in s_.effects if e.kind == "for" and ast.unparse(e.value) == exts}
    allloops = {e.line for s_ in sums for e in s_.effects if e.kind == "for"}
    ctx.expect("R-SYM", f, "the extensions are tried in the caller's order", len(loops) == 1 and len(allloops) == 1, str(sorted(loops)), f"loops over *{exts}: {sorted(loops)} of {len(allloops)} loop(s)", node=f.node)
    if len(loops) == 1 and len(allloops) == 1:
        ev, line = next(iter(loops))
        E = f"{path}.lower().endswith({ev})"
        decs = []
        for s_ in sums:
            if s_.end == "raise":
                continue  # the 'assert extensions' guard
            asg = dict(s_.plain_assign())
            if not any(e.kind == "for" for e in s_.effects):
                asg.setdefault(ckey(E), False)
            decs.append(Dec(asg, terminal_and_exit(s_), s_))
        tjudge(ctx, "R-SYM", f, "match() compares the lower-cased path's ending with each extension in order and returns the first that fits, else None", decs, [E],
               lambda a: f"return {ev} [leaving the loop at this element]" if a[E] else "return None", dont_care=[exts],
               why="file names are matched case-insensitively: the path is lower-cased, the extension tables are lower-case")
    for name, spec in (("SIMFILE", None), ("IMAGE", SPEC_IMAGE), ("AUDIO", None)):
        v = tuple(p.const(EXT, name))
        ctx.expect("R-SYM", (EXT, ""), f"extensions.{name} entries are lower-case and start with '.'", all(isinstance(x, str) and x == x.lower() and x.startswith(".") for x in v), str(v), str(v))


def directory_rules(ctx: Ctx) -> None:
    """C19.2-4,6"""
    p = ctx.p
    init = p.func(f"{SD}.__init__")
    sn = init.param_names()[0]
    simfile_ext = tuple(p.const(EXT, "SIMFILE"))
    # match over the listing
    lps = [l for l in for_loops(init) if self_attr(l.iter, sn) == "_dirlist"]
    lp = one(lps, f"loop over the directory listing in {init.fq}")
    item = lp.target.id
    dl = [n for n in body_walk(init.node) if isinstance(n, (ast.Assign, ast.AnnAssign)) and self_attr(n.targets[0] if isinstance(n, ast.Assign) else n.target, sn) == "_dirlist"]
    okl = len(dl) == 1 and matches("$s.filesystem.listdir($d)", dl[0].value) and ast.unparse(dl[0].value.args[0]) == init.param_names()[1]
    ctx.expect("R-PROV", init, "the listing is filesystem.listdir(simfile_dir)", okl, "", f"{src(dl[0].value) if dl else ''}", node=init.node)
    mv = [n for n, bs in locals_of(init).b.items() for b in bs if b.kind == "assign" and isinstance(b.value, ast.Call) and callee_name(ctx, init, b.value) == f"{EXT}:match"]
    mname = one(mv, "match result local")
    mb = locals_of(init).b[mname][0].value
    okm = len(mb.args) == 2 and ast.unparse(mb.args[0]) == item and isinstance(mb.args[1], ast.Starred) and try_ev(ctx, init, mb.args[1].value) is not None \
        and tuple(try_ev(ctx, init, mb.args[1].value)) == simfile_ext
    ctx.expect("R-TABLE", init, "each entry is matched against extensions.SIMFILE", okm, "", f"{src(mb)}", node=mb)
    ctx.expect("R-TABLE", init, "the simfile extensions are .sm and .ssc", set(simfile_ext) == {".sm", ".ssc"}, str(simfile_ext), f"extensions.SIMFILE is {simfile_ext}", node=lp)
    # per entry (path effects): the first file of a kind is recorded as <directory>/<entry>; a second one raises unless duplicates are ignored (then the first wins)
    from ..decide import IGNORE
    from .tables import Dec, closed_text, judge as tjudge, sums_of as tsums
    sums = tsums(ctx, init)
    dirp = init.param_names()[1]
    loop_lines = {e.line for s_ in sums for e in s_.effects if e.kind == "for" and ast.unparse(e.value) == f"{sn}._dirlist"}
    require(len(loop_lines) == 1, f"{init.fq}: expected one loop over {sn}._dirlist in the path effects, found {sorted(loop_lines)}")
    line = next(iter(loop_lines))
    mtexts = {ast.unparse(e.value) for s_ in sums for e in s_.effects if e.kind == "bind" and isinstance(e.target, ast.Name) and e.target.id == mname and e.value is not None}
    require(len(mtexts) == 1, f"{init.fq}: the match result has several closed forms: {sorted(mtexts)}")
    MT = next(iter(mtexts))
    M, S, C = MT, f"{MT} == '.sm'", f"{MT} == '.ssc'"
    P1, P2, I = f"{sn}.sm_path", f"{sn}.ssc_path", f"{sn}._ignore_duplicate"
    JOIN = f"{sn}._path.join({dirp}, {item})"
    decs = []
    for s_ in sums:
        if not any(e.kind == "for" and e.line == line for e in s_.effects):
            continue
        toks = []
        for e in s_.effects:
            if line not in e.loops:
                continue
            if e.kind == "store":
                toks.append(closed_text(s_, e, keep=[item]))
            elif e.kind == "raise":
                v = e.value
                toks.append("raise " + ast.unparse(v.func if isinstance(v, ast.Call) else v) if v is not None else "raise")
            elif e.kind in ("expr", "aug", "delete", "break", "return"):
                toks.append(closed_text(s_, e, keep=[item]) if e.kind not in ("break", "return") else e.kind)
        decs.append(Dec(dict(s_.atoms_in(line)), tuple(toks), s_))
    ctx.floor("paths through the directory scan", len(decs), 1)

    def spec(a):
        if not a[M]:
            return ()
        if a[S] and a[C]:
            return IGNORE
        for flag, present, attr in ((a[S], a[P1], "sm_path"), (a[C], a[P2], "ssc_path")):
            if flag:
                if not present:
                    return (f"{sn}.{attr} = {JOIN}",)
                return () if a[I] else ("raise DuplicateSimfileError",)
        return IGNORE if False else ()

    tjudge(ctx, "R-TABLE", init, "per listed entry: the first .sm / .ssc entry is recorded as <directory>/<entry>; a second one raises DuplicateSimfileError unless duplicates are ignored (then the first wins); "
           "any other entry changes nothing", decs, [M, S, C, P1, P2, I], spec, node=lp,
           feasible=lambda full: True, why="documented: one simfile of each kind per directory; the paths are the directory joined with the listed names")
    ig = [n for n in body_walk(init.node) if isinstance(n, ast.Assign) and self_attr(n.targets[0], sn) == "_ignore_duplicate"]
    ctx.expect("R-FWD", init, "ignore_duplicate is the caller's flag", len(ig) == 1 and ast.unparse(ig[0].value) == "ignore_duplicate", "", "", node=init.node)
    cfg = ctx.cfg(init)
    if ig:
        ctx.expect("R-ORDER", init, "the flag is stored before the listing is scanned", cfg.dominates(cfg_node_of(cfg, init, ig[0]), cfg.node_for(lp)), "", "", node=ig[0])
    # SSC preferred everywhere
    n = 0
    for f in p.nontest_functions():
        for node in body_walk(f.node):
            if isinstance(node, ast.BoolOp) and isinstance(node.op, ast.Or):
                attrs = [v.attr if isinstance(v, ast.Attribute) else None for v in node.values]
                if set(attrs) <= {"ssc_path", "sm_path"} and None not in attrs and len(attrs) == 2:
                    n += 1
                    ctx.expect("R-CLONE", f, f"SSC is preferred to SM: {src(node, 60)}", attrs == ["ssc_path", "sm_path"] and ast.unparse(node.values[0].value) == ast.unparse(node.values[1].value), "",
                               f"{src(node)} prefers the SM file", node=node)
    n_pref = n
    # open()
    op = p.func(f"{SD}.open")
    s2 = op.param_names()[0]
    oc = [c for c in calls(op) if callee_name(ctx, op, c) == "simfile:open"]
    c = one(oc, f"simfile.open call in {op.fq}")
    from ..flow import inline as _inl_op  # a local that holds self.simfile_path (read once, nothing stored in between) stands for it
    fs = [(ast.unparse(_inl_op(x, op)), pol) for x, pol in facts(ctx, op, c)]
    ctx.expect("R-ORDER", op, "FileNotFoundError guard precedes the open", (f"{s2}.simfile_path", True) in fs, str(fs), "simfile.open is reachable with no simfile path", node=c)
    rs = [r for r in body_walk(op.node) if isinstance(r, ast.Raise) and ast.unparse(r.exc.func if isinstance(r.exc, ast.Call) else r.exc) == "FileNotFoundError"]
    okf = any((f"{s2}.simfile_path", False) in [(ast.unparse(_inl_op(x, op)), pol) for x, pol in facts(ctx, op, r)] for r in rs)
    ctx.expect("R-TABLE", op, "a directory without a simfile raises FileNotFoundError on open", okf, "", "", node=op.node)
    ctx.expect("R-FWD", op, "open() opens the preferred simfile path", bool(c.args) and ast.unparse(_inl_op(c.args[0], op)) == f"{s2}.simfile_path", "", f"{src(c)}", node=c)
    rr = [r for r in body_walk(op.node) if isinstance(r, ast.Return)]
    ctx.expect("R-FWD", op, "open() returns the loaded simfile", len(rr) == 1 and rr[0].value is c, "", "", node=op.node)
    sp_ = p.func(f"{SD}.simfile_path")
    rr = [r for r in body_walk(sp_.node) if isinstance(r, ast.Return)]
    ctx.expect("R-TABLE", sp_, "simfile_path is ssc_path or sm_path", len(rr) == 1 and ast.unparse(rr[0].value) == f"{sp_.param_names()[0]}.ssc_path or {sp_.param_names()[0]}.sm_path", "", "", node=sp_.node)
    # opendir / openpack answer with the simfile opened by the directory object's own open() (which refuses a directory without a simfile)
    # and the path that object prefers
    from .tables import closed as _closed, sums_of as _tsums
    for fq in ("simfile:opendir", "simfile:openpack"):
        f = p.func(fq)
        outs = set()
        for s_ in _tsums(ctx, f):
            for i_, e in enumerate(s_.effects):
                if e.kind in ("return", "yield") and e.value is not None:
                    v_ = _closed(s_, e.value, i_, opq=e.opq)
                    # `x.ssc_path or x.sm_path` decided as a branch: which one was chosen on this path
                    pref = tuple(sorted((k, v) for k, v in s_.plain_assign().items() if k.endswith(".ssc_path")))
                    outs.add((ast.unparse(v_), pref))
        good = bool(outs)
        for o, pref in outs:
            t_ = ast.parse(o, mode="eval").body
            okt = isinstance(t_, ast.Tuple) and len(t_.elts) == 2 and matches("$d.open(**$k)", t_.elts[0]) and ast.unparse(t_.elts[0].keywords[0].value) == f.has_kwargs()
            if okt:
                d_ = ast.unparse(t_.elts[0].func.value)
                second = ast.unparse(t_.elts[1])
                okt = (second in (f"cast(str, {d_}.ssc_path or {d_}.sm_path)", f"{d_}.ssc_path or {d_}.sm_path", f"cast(str, {d_}.simfile_path)", f"{d_}.simfile_path")
                       or (second == f"{d_}.ssc_path" and len(pref) == 1 and pref[0][1] is True) or (second == f"{d_}.sm_path" and len(pref) == 1 and pref[0][1] is False)) and \
                    (d_.startswith("SimfileDirectory(") or fq.endswith("openpack"))
            good = good and okt
        outs = {o for o, _ in outs}
        ctx.expect("R-FWD", f, f"{f.name} returns the simfile opened from, and the path of, the same directory object (through SimfileDirectory.open, which raises FileNotFoundError when there is none)",
                   good, str(sorted(outs))[:200], f"{f.name} answers {sorted(outs)}", node=f.node)
    ctx.floor("'ssc_path or sm_path' expressions", n_pref, 2)


def pack_rules(ctx: Ctx) -> None:
    """C19.5: a sub-directory of the pack is reported, once, iff it is a directory that directly contains an entry with a simfile extension."""
    p = ctx.p
    f = p.func(f"{SP}._find_simfile_paths")
    sn = f.param_names()[0]
    from .tables import Dec, judge as tjudge, sums_of as tsums
    from ..decide import key as ckey
    sums = tsums(ctx, f)
    fors = {}
    for s_ in sums:
        for e in s_.effects:
            if e.kind == "for":
                fors[e.line] = (ast.unparse(e.target), ast.unparse(e.value), e.loops)
    outer = [l for l, (t, v, ls) in fors.items() if v == f"{sn}.filesystem.listdir({sn}.pack_dir)" and not ls]
    require(len(outer) == 1, f"{f.fq}: expected one loop over the pack listing, found {sorted(fors.values(), key=str)}")
    item = fors[outer[0]][0]
    PATH = f"{sn}._path.join({sn}.pack_dir, {item})"
    inner = [l for l, (t, v, ls) in fors.items() if v == f"{sn}.filesystem.listdir({PATH})" and outer[0] in ls]
    ctx.expect("R-TABLE", f, "each entry of the pack directory is looked into (its own listing)", len(inner) == 1 and len(fors) == 2, str(sorted(fors.values(), key=str)), f"loops: {sorted(v for t, v, ls in fors.values())}", node=f.node)
    if not (len(inner) == 1 and len(fors) == 2):
        return
    sub = fors[inner[0]][0]
    simfile_ext = tuple(p.const(EXT, "SIMFILE"))
    D, M = f"{sn}.filesystem.isdir({PATH})", f"extensions.match({sub}, *{simfile_ext!r})"
    decs = []
    for s_ in sums:
        if not any(e.kind == "for" and e.line == outer[0] for e in s_.effects):
            continue
        asg = dict(s_.atoms_in(outer[0]))
        if not any(e.kind == "for" and e.line == inner[0] for e in s_.effects) and asg.get(ckey(D)) is True:
            asg.setdefault(ckey(M), False)  # an empty directory holds no simfile
        toks = sorted({("leave the inner listing" if e.kind == "break" else e.text) for e in s_.effects if outer[0] in e.loops and e.kind in ("yield", "yieldfrom", "break", "return", "raise")})
        decs.append(Dec(asg, tuple(toks), s_))
    tjudge(ctx, "R-TABLE", f, "a sub-directory is reported (once: its listing is left at the first simfile) iff it is a directory and directly contains an entry with a simfile extension; "
           "only directories are listed", decs, [D, M], lambda a: tuple(sorted(["leave the inner listing", f"yield {PATH}"])) if (a[D] and a[M]) else (),
           why="every song directory of the pack must be found, whatever it is called; loose files are never listed")
    _pack_tail(ctx, f)


def _pack_tail(ctx: Ctx, f: FunctionInfo) -> None:
    p = ctx.p
    cg = callgraph(ctx)
    reach = set()
    for g in cg.callees(f):
        reach |= cg.reach(g)
    ctx.expect("R-ORDER", f, "the pack listing is not recursive (nested directories are never descended)", f.fq not in reach, "", "", node=f.node)
    init = p.func(f"{SP}.__init__")
    st = [n for n in body_walk(init.node) if isinstance(n, ast.Assign) and self_attr(n.targets[0], init.param_names()[0]) == "simfile_dir_paths"]
    ctx.expect("R-TABLE", init, "simfile_dir_paths is the tuple of that listing", len(st) == 1 and ast.unparse(st[0].value) == f"tuple({init.param_names()[0]}._find_simfile_paths())", "", "", node=init.node)
    sd = p.func(f"{SP}.simfile_dirs")
    lps = [l for l in for_loops(sd) if self_attr(l.iter, sd.param_names()[0]) == "simfile_dir_paths"]
    oks = False
    if len(lps) == 1:
        ys = [n for st_ in lps[0].body for n in walk_no_nested(st_) if isinstance(n, ast.Yield)]
        yv = inline(ys[0].value, sd) if len(ys) == 1 and ys[0].value is not None else None
        oks = len(ys) == 1 and isinstance(yv, ast.Call) and callee_name(ctx, sd, yv) == "simfile.dir.SimfileDirectory" and ast.unparse(yv.args[0]) == lps[0].target.id
    ctx.expect("R-TABLE", sd, "simfile_dirs yields one SimfileDirectory per listed path, in order", oks, "", "", node=sd.node)
    sf = p.func(f"{SP}.simfiles")
    lps = [l for l in for_loops(sf) if matches("$s.simfile_dirs()", l.iter)]
    oks = False
    if len(lps) == 1:
        ys = [n for st_ in lps[0].body for n in walk_no_nested(st_) if isinstance(n, ast.Yield)]
        oks = len(ys) == 1 and matches("$d.open(**$k)", ys[0].value) and ast.unparse(ys[0].value.func.value) == lps[0].target.id
    ctx.expect("R-TABLE", sf, "simfiles opens every directory of the pack", oks, "", "", node=sf.node)
    op = p.func("simfile:openpack")
    gens = [n for n in body_walk(op.node) if isinstance(n, ast.GeneratorExp)]
    okg = len(gens) == 1 and len(gens[0].generators) == 1 and not gens[0].generators[0].ifs and matches("$sp.simfile_dirs()", gens[0].generators[0].iter)
    if not gens:
        lps_ = [l for l in for_loops(op) if matches("$sp.simfile_dirs()", l.iter)]
        if len(lps_) == 1:
            ys_ = [n for st_ in lps_[0].body for n in walk_no_nested(st_) if isinstance(n, ast.Yield)]
            skips_ = [n for st_ in lps_[0].body for n in walk_no_nested(st_) if isinstance(n, (ast.Continue, ast.Break, ast.Return, ast.If))]
            okg = len(ys_) == 1 and not skips_
        else:
            raise AnalysisError("openpack: neither a generator expression nor a loop over SimfilePack.simfile_dirs()")
    ctx.expect("R-TABLE", op, "openpack walks SimfilePack.simfile_dirs() without filtering", okg, "", "", node=op.node)


# ---------------------------------------------------------------------------
# C20


def _preset_norm(pat: str) -> Tuple[str, str, str]:
    """(start anchor, literal, end anchor) of a preset via the stdlib regex parser."""
    import re._parser as sre  # stdlib
    import re._constants as C
    parsed = sre.parse(pat)
    items = list(parsed)
    start = end = ""
    if items and items[0][0] is C.AT and items[0][1] in (C.AT_BEGINNING, C.AT_BEGINNING_STRING):
        start = "^"
        items = items[1:]
    if items and items[-1][0] is C.AT and items[-1][1] in (C.AT_END, C.AT_END_STRING):
        end = "$"
        items = items[:-1]
    lit = ""
    for op, arg in items:
        if op is not C.LITERAL:
            raise AnalysisError(f"asset preset {pat!r} is not an anchored literal (operator {op})")
        lit += chr(arg)
    return (start, lit, end)


def _patterns_of(d) -> List[str]:
    """The search patterns of an asset definition: a sequence of pattern strings, or one compiled pattern (its text)."""
    from ..engine import RegexVal
    out: List[str] = []
    for k, v in d.fields:
        if k in ("extensions", "match_by_extension"):
            continue
        if isinstance(v, RegexVal):
            if v.flags:
                raise AnalysisError(f"asset pattern {v!r} is compiled with flags: not compared")
            out.append(v.pattern)
        elif isinstance(v, (list, tuple)) and all(isinstance(x, str) for x in v):
            out.extend(v)
        elif isinstance(v, (list, tuple)) and all(isinstance(x, RegexVal) for x in v):
            out.extend(x.pattern for x in v)
        elif v is None:
            continue
        else:
            raise AnalysisError(f"asset definition field {k} = {v!r} is not a pattern / a sequence of patterns")
    return out


def _alternatives(pat: str):
    """A search pattern as the set of anchored literals it stands for: top-level '|' and groups of alternatives are multiplied out
    ('(banner|bn)$' is {banner$, bn$}); anything but literals, anchors, groups and alternation is not compared."""
    import re._parser as sre
    import re._constants as C

    def seqs(items):
        # list of (start, literal, end) alternatives for a sequence of parsed items
        acc = [("", "", "")]
        for op, arg in items:
            if op is C.LITERAL:
                if any(e for _, _, e in acc):
                    raise AnalysisError(f"asset preset {pat!r}: text after an end anchor")
                acc = [(s_, l + chr(arg), e) for s_, l, e in acc]
            elif op is C.AT and arg in (C.AT_BEGINNING, C.AT_BEGINNING_STRING):
                if any(l for _, l, _ in acc):
                    raise AnalysisError(f"asset preset {pat!r}: start anchor after text")
                acc = [("^", l, e) for _, l, e in acc]
            elif op is C.AT and arg in (C.AT_END, C.AT_END_STRING):
                acc = [(s_, l, "$") for s_, l, _ in acc]
            elif op is C.SUBPATTERN:
                sub = seqs(list(arg[3]))
                acc = [(s1 or s2, l1 + l2, e1 or e2) for s1, l1, e1 in acc for s2, l2, e2 in sub if not (e1 and (l2 or s2)) and not (s2 and l1)]
            elif op is C.BRANCH:
                alts = []
                for br in arg[1]:
                    alts.extend(seqs(list(br)))
                acc = [(s1 or s2, l1 + l2, e1 or e2) for s1, l1, e1 in acc for s2, l2, e2 in alts if not (e1 and (l2 or s2)) and not (s2 and l1)]
            else:
                raise AnalysisError(f"asset preset {pat!r} is not made of literals, anchors, groups and alternation (operator {op})")
        return acc

    return set(seqs(list(sre.parse(pat))))


def asset_tables(ctx: Ctx) -> None:
    p = ctx.p
    defs = p.const("simfile.assets", "ASSET_DEFINITIONS")
    image, audio = tuple(p.const(EXT, "IMAGE")), tuple(p.const(EXT, "AUDIO"))
    ctx.expect("R-TABLE", (EXT, ""), "extensions.IMAGE == png, jpg, jpeg, gif, bmp (priority order)", image == SPEC_IMAGE, str(image), f"IMAGE is {image}")
    ctx.expect("R-TABLE", (EXT, ""), "extensions.AUDIO == {mp3, oga, ogg, wav}", set(audio) == SPEC_AUDIO, str(audio), f"AUDIO is {audio}")
    for key, spec in SPEC_PRESETS.items():
        d = defs.get(key)
        if not isinstance(d, RecordVal):
            ctx.bad("R-TABLE", ("simfile.assets", ""), f"ASSET_DEFINITIONS[{key}]", "missing")
            continue
        pats = _patterns_of(d)
        got = {x for pat in pats for x in _alternatives(pat)}
        ctx.expect("R-TABLE", ("simfile.assets", ""), f"patterns of {key} == documented patterns", got == spec and not d.get("match_by_extension"), str(sorted(got)), f"{key} presets normalise to {sorted(got)}; documented {sorted(spec)}")
        ctx.expect("R-TABLE", ("simfile.assets", ""), f"{key} presets are lower-case (the stem is lower-cased before matching)", all(x[1] == x[1].lower() for x in got), "", "")
    m = defs.get("MUSIC")
    okm = isinstance(m, RecordVal) and m.get("match_by_extension") is True and tuple(m.get("extensions")) == audio and not m.get("presets")
    ctx.expect("R-TABLE", ("simfile.assets", ""), "MUSIC matches by audio extension only", okm, "", str(m))
    ctx.observe("R-TABLE", ("simfile.assets", ""), "DISC patterns / DISC key", "explicitly not claimed by the property")
    # matches(): a preset found in the lower-cased stem matches; otherwise the extension counts only when match_by_extension is set
    f = p.func("simfile.assets:AssetDefinition.matches")
    sn, path = f.param_names()
    from .tables import Dec, judge as tjudge, sums_of as tsums, terminal_and_exit
    from ..decide import key as ckey
    sums = tsums(ctx, f, bool_returns=True)
    loops = {(ast.unparse(e.target), e.line) for s_ in sums for e in s_.effects if e.kind == "for" and ast.unparse(e.value) == f"{sn}.presets"}
    allloops = {e.line for s_ in sums for e in s_.effects if e.kind == "for"}
    single = None
    if not allloops:
        # one compiled pattern searched directly: self.<field>.search(<stem>.lower())
        keys_ = {k for s_ in sums for k in s_.plain_assign()}
        cands_ = sorted(k for k in keys_ if ".search(" in k and k.startswith(f"{sn}."))
        if len(cands_) == 1 and cands_[0].endswith(f".search(os.path.splitext({path})[0].lower())"):
            single = cands_[0]
    if single is not None:
        B, X = f"{sn}.match_by_extension", f"extensions.match({path}, *{sn}.extensions)"
        fld = single[len(sn) + 1:].split(".search(")[0]
        decs = [Dec(dict(s_.plain_assign()), terminal_and_exit(s_), s_) for s_ in sums]
        ctx.ok("R-TABLE", f, "the definition's (single, compiled) pattern is searched in the lower-cased file stem", single, node=f.node)
        tjudge(ctx, "R-TABLE", f, "a preset hit matches; otherwise the extension counts only when match_by_extension is set (extensions.match(path, *self.extensions))", decs, [single, B, X],
               lambda a: "return True" if (a[single] or (a[B] and a[X])) else "return False", dont_care=[f"{sn}.{fld}"],
               equiv={f"{X} is None": (X, False), f"bool({X})": (X, True)},
               feasible=lambda full: not (full.get(ckey(single)) and full.get(ckey(f"{sn}.{fld}")) is False))  # an absent pattern is never searched
    else:
        ctx.expect("R-TABLE", f, "every preset of the definition is tried", len(loops) == 1 and len(allloops) == 1, str(sorted(loops)), f"loops over the presets: {sorted(loops)} of {len(allloops)} loop(s)", node=f.node)
    if single is None and len(loops) == 1 and len(allloops) == 1:
        pv, line = next(iter(loops))
        HIT = f"re.search({pv}, os.path.splitext({path})[0].lower())"
        B, X = f"{sn}.match_by_extension", f"extensions.match({path}, *{sn}.extensions)"
        EARLY = " [leaving the loop at this element]"
        decs = []
        for s_ in sums:
            asg = dict(s_.plain_assign())
            if not any(e.kind == "for" for e in s_.effects):
                asg.setdefault(ckey(HIT), False)  # no preset at all = no preset hit
            decs.append(Dec(asg, terminal_and_exit(s_), s_))
        seen = {k for d in decs for k in d.assign}
        searches = sorted(k for k in seen if "re.search(" in k or "re.match(" in k or "re.fullmatch(" in k)
        ctx.expect("R-SYM", f, "presets are searched in the lower-cased file stem", searches == [ckey(HIT)], str(searches), f"the preset test is {searches}; documented: re.search(preset, <stem>.lower())", node=f.node)
        tjudge(ctx, "R-TABLE", f, "a preset hit matches; otherwise the extension counts only when match_by_extension is set (extensions.match(path, *self.extensions))", decs, [HIT, B, X],
               lambda a: "return True" + EARLY if a[HIT] else ("return True" if (a[B] and a[X]) else "return False"),
               equiv={f"{X} is None": (X, False), f"bool({X})": (X, True)})
    # the Assets properties
    ci = p.cls("simfile.assets.Assets")
    n = 0
    for name, m_ in ci.methods.items():
        if "property" in m_.decorators():
            n += 1
            rr = [r for r in body_walk(m_.node) if isinstance(r, ast.Return)]
            ok = len(rr) == 1 and matches("$s._asset_property($k)", rr[0].value) and try_ev(ctx, m_, rr[0].value.args[0]) == name.upper() and name.upper() in defs
            ctx.expect("R-TABLE", ci, f"Assets.{name} looks up {name.upper()}", ok, "", f"{src(rr[0].value) if rr else ''}", node=m_.node)
    ctx.floor("Assets properties", n, 7)


def asset_lookup(ctx: Ctx) -> None:
    """C20.1-3,6: provenance, cache, case-insensitive comparison, specified path first (decision tables over path effects)."""
    p = ctx.p
    from .tables import Dec, closed, closed_text, function_decs, judge as tjudge, sums_of as tsums, terminal_text, terminal_and_exit, leaves_loop_early
    from ..decide import OneOf, key as ckey
    f = p.func(f"{AS}._asset_property")
    sn, prop = f.param_names()
    cp = p.func(f"{AS}._cache_path")
    gci = p.func(f"{AS}._get_case_insensitive_path")
    EARLY = " [leaving the loop at this element]"
    # ---- _asset_property
    sums = tsums(ctx, f)
    cis = {e.target.id for s_ in sums for e in s_.effects if e.kind == "bind" and isinstance(e.target, ast.Name) and isinstance(e.value, ast.Call)
           and ast.unparse(e.value.func) == f"{sn}._get_case_insensitive_path"}
    if not cis:
        ctx.bad("R-PROV", f, "a specified-path answer comes from the case-insensitive listing lookup", "no call of _get_case_insensitive_path: the simfile's own value would be answered without checking that the file exists", node=f.node)
        return
    require(len(cis) == 1, f"{f.fq}: expected one local holding the case-insensitive lookup, found {sorted(cis)}")
    ci = next(iter(cis))
    loops = {(ast.unparse(e.target), e.line) for s_ in sums for e in s_.effects if e.kind == "for" and ast.unparse(e.value) == f"{sn}._dirlist"}
    allloops = {e.line for s_ in sums for e in s_.effects if e.kind == "for"}
    if not loops and not allloops:
        ctx.bad("R-PROV", f, "a pattern answer is the first entry of the directory listing that matches the asked asset's definition", f"{f.qualname} does not search {sn}._dirlist for the asked asset: "
                "the answer comes from somewhere else (a table filled earlier), so it is not 'the first listed entry matching this kind' by construction", node=f.node)
        return
    require(len(loops) == 1 and len(allloops) == 1, f"{f.fq}: expected one loop over {sn}._dirlist, found {sorted(loops)} of {len(allloops)} loop(s)")
    item, line = next(iter(loops))
    SPV = f"{sn}.simfile.get({prop})"
    HIT, SP, CI, MATCH = f"{prop} in {sn}._cache", SPV, ci, f"ASSET_DEFINITIONS[{prop}].matches({item})"
    lookup = f"{sn}._get_case_insensitive_path({sn}._path.join({sn}.simfile_dir, {SPV}))"

    from ..flow import call_args as _ca
    cpp = cp.param_names()[1:]
    cpd = {}
    a_ = cp.node.args
    pos_ = a_.posonlyargs + a_.args
    for arg_, d_ in zip(pos_[len(pos_) - len(a_.defaults):], a_.defaults):
        cpd[arg_.arg] = ast.unparse(d_)
    for arg_, d_ in zip(a_.kwonlyargs, a_.kw_defaults):
        if d_ is not None:
            cpd[arg_.arg] = ast.unparse(d_)

    def canon_cache_call(v):
        """_cache_path(..) with its arguments bound to the parameters (keyword or positional, defaults filled in): one text per meaning."""
        if isinstance(v, ast.Call) and ast.unparse(v.func) == f"{sn}._cache_path" and not any(isinstance(x, ast.Starred) for x in v.args) and all(k.arg for k in v.keywords):
            bound = {}
            for q, x in zip(cpp, v.args):
                bound[q] = ast.unparse(x)
            for k in v.keywords:
                bound[k.arg] = ast.unparse(k.value)
            for q in cpp:
                bound.setdefault(q, cpd.get(q, "<missing>"))
            return f"{sn}._cache_path(" + ", ".join(f"{q}={bound[q]}" for q in cpp) + ")"
        return ast.unparse(v) if v is not None else "None"

    def out(s_):
        k, v = s_.terminal()
        v = closed(s_, v)
        t = "return " + canon_cache_call(v) if k == "return" else terminal_text(s_)
        return t + (EARLY if leaves_loop_early(s_) else "")

    def cache_text(path_text: str, absolute: str) -> str:
        vals = dict(zip(cpp, [prop, path_text, absolute]))
        return f"{sn}._cache_path(" + ", ".join(f"{q}={vals.get(q, cpd.get(q))}" for q in cpp) + ")"

    def spec(a):
        if a[HIT]:
            return f"return {sn}._cache[{prop}]"
        if a[SP] and a[CI]:
            return "return " + cache_text(lookup, "True")
        return "return " + cache_text(item, "False") + EARLY if a[MATCH] else "return " + cache_text("None", "False")

    decs = []
    for s_ in sums:
        asg = dict(s_.plain_assign())
        if not any(e.kind == "for" for e in s_.effects) and not (asg.get(ckey(HIT)) or (asg.get(ckey(SP)) and asg.get(ckey(CI)))) and s_.end != "raise":
            asg.setdefault(ckey(MATCH), False)  # an empty listing has no matching entry
        decs.append(Dec(asg, out(s_), s_))
    tjudge(ctx, "R-PROV", f, "four kinds of answer, in this order: the cached one; the simfile's own value when the case-insensitive listing lookup finds it; the first listing entry matching the asset's patterns; None - "
           "every new answer goes through _cache_path", decs, [HIT, SP, CI, MATCH], spec, equiv={f"{ci} is None": (CI, False), f"{SPV} is None": (SP, False)},
           why="an answer must be an existing entry of a directory listing (or None), and asking again must give the same answer")
    # ---- _cache_path
    cs, ck, cv = cp.param_names()[:3]
    csums = tsums(ctx, cp)
    VN, ABS = f"{cv} is None", "absolute"
    norm_abs = f"{cs}._path.normpath({cv})"
    norm_rel = f"{cs}._path.normpath({cs}._path.join({cs}.simfile_dir, {cv}))"

    def cout(s_):
        st = [closed_text(s_, e, keep=[cs]) for e in s_.effects if e.kind in ("store", "aug", "delete")]
        k, v = s_.terminal()
        v = closed(s_, v, keep=[cs])
        return tuple(st) + ("return " + (ast.unparse(v) if (k == "return" and v is not None) else "None"),)

    def cspec(a):
        x = "None" if a[VN] else (norm_abs if a[ABS] else norm_rel)
        return OneOf((f"{cs}._cache[{ck}] = {x}", f"return {cs}._cache[{ck}]"), (f"{cs}._cache[{ck}] = {x}", f"return {x}"))

    tjudge(ctx, "R-ORDER", cp, "every answer is stored in the cache before it is returned; a path is normalised (joined onto the directory when relative), None is cached only for a None answer",
           function_decs(csums, cout), [VN, ABS], cspec)
    # ---- _get_case_insensitive_path
    g = gci
    gs, gp = g.param_names()
    gsums = tsums(ctx, g)
    CD, FN = f"{gs}._path.split({gp})[0]", f"{gs}._path.split({gp})[1]"
    gl = {(ast.unparse(e.target), e.line) for s_ in gsums for e in s_.effects if e.kind == "for" and ast.unparse(e.value) == f"{gs}.filesystem.listdir({CD})"}
    gall = {e.line for s_ in gsums for e in s_.effects if e.kind == "for"}
    ctx.expect("R-PROV", g, "the candidates are the entries of the containing directory's listing", len(gl) == 1 and len(gall) == 1, str(sorted(gl)), f"loops: {sorted(gl)} of {len(gall)}", node=g.node)
    if len(gl) == 1 and len(gall) == 1:
        it, _ = next(iter(gl))
        ISD, SAME = f"{gs}.filesystem.isdir({CD})", f"{it}.lower() == {FN}.lower()"
        gdecs = []
        for s_ in gsums:
            asg = dict(s_.plain_assign())
            if not any(e.kind == "for" for e in s_.effects) and asg.get(ckey(ISD)) is True:
                asg.setdefault(ckey(SAME), False)  # an empty listing has no entry of that name
            gdecs.append(Dec(asg, terminal_and_exit(s_), s_))
        tjudge(ctx, "R-SYM", g, "the answer is the containing directory joined with the first listed entry whose lower-cased name equals the lower-cased file name; None when the directory does not exist or nothing matches",
               gdecs, [ISD, SAME], lambda a: f"return {gs}._path.join({CD}, {it})" + EARLY if (a[ISD] and a[SAME]) else "return None",
               equiv={f"{it}.casefold() == {FN}.casefold()": (SAME, True)}, why="both sides of the name comparison must be lower-cased, and only a real directory is listed")
    # _dirlist provenance
    init = p.func(f"{AS}.__init__")
    st = [n for n in body_walk(init.node) if isinstance(n, ast.Assign) and self_attr(n.targets[0], init.param_names()[0]) == "_dirlist"]
    okd = len(st) == 1 and ast.unparse(st[0].value) == f"{init.param_names()[0]}.filesystem.listdir({init.param_names()[1]})"
    ctx.expect("R-PROV", init, "_dirlist is filesystem.listdir(simfile_dir)", okd, "", "", node=init.node)
    wr = []
    for fn in p.nontest_functions():
        for n in body_walk(fn.node):
            if isinstance(n, ast.Assign) and isinstance(n.targets[0], ast.Attribute) and n.targets[0].attr in ("_dirlist", "_cache") and fn.module.name == "simfile.assets" and fn.fq != init.fq:
                wr.append(fn.fq)
    ctx.expect("R-EFFECT", init, "only __init__ rebinds _dirlist / _cache", not wr, "", str(wr), node=init.node)


def pack_banner(ctx: Ctx) -> None:
    """C20.5: banner(): first an entry of the pack directory's listing with an image extension (by extension priority, then listing order);
    otherwise <parent>/<pack name><ext> if it exists (same priority); otherwise None."""
    p = ctx.p
    f = p.func(f"{SP}.banner")
    sn = f.param_names()[0]
    from .tables import Dec, judge as tjudge, sums_of as tsums, terminal_and_exit
    from ..decide import key as ckey
    image = tuple(p.const(EXT, "IMAGE"))
    sums = tsums(ctx, f)
    fors = {}
    for s_ in sums:
        for e in s_.effects:
            if e.kind == "for":
                fors[e.line] = (ast.unparse(e.target), ast.unparse(e.value), e.loops)
    img_loops = sorted(l for l, (t, v, ls) in fors.items() if v == repr(image) and not ls)
    list_loops = [l for l, (t, v, ls) in fors.items() if v == f"{sn}.filesystem.listdir({sn}.pack_dir)" and len(ls) == 1 and ls[0] in img_loops]
    ctx.expect("R-ORDER", f, "two stages, each ordered by extension priority (outer loop over extensions.IMAGE); stage 1 walks the pack directory's listing", len(img_loops) == 2 and len(list_loops) == 1 and len(fors) == 3,
               str(sorted(fors.values(), key=str)), f"loops: {sorted((v, len(ls)) for t, v, ls in fors.values())}", node=f.node)
    if not (len(img_loops) == 2 and len(list_loops) == 1 and len(fors) == 3):
        return
    l1 = fors[list_loops[0]][2][0]
    l2 = [l for l in img_loops if l != l1][0]
    t1, item, t2 = fors[l1][0], fors[list_loops[0]][0], fors[l2][0]
    M1 = f"extensions.match({item}, {t1})"
    PB = f"{sn}._path.join({sn}._path.split({sn}.pack_dir)[0], {sn}._path.split({sn}.pack_dir)[1] + {t2})"
    EX = f"{sn}.filesystem.exists({PB})"
    EARLY = " [leaving the loop at this element]"
    decs = []
    for s_ in sums:
        asg = dict(s_.plain_assign())
        if not any(e.kind == "for" and e.line == list_loops[0] for e in s_.effects):
            asg.setdefault(ckey(M1), False)  # an empty listing has no image
        # the two stages share nothing but the order: atoms of stage 2 are those decided inside its loop
        decs.append(Dec(asg, terminal_and_exit(s_), s_))

    def spec(a):
        if a[M1]:
            return f"return {sn}._path.join({sn}.pack_dir, {item})" + EARLY
        if a[EX]:
            return f"return {PB}" + EARLY
        return "return None"

    tjudge(ctx, "R-PROV", f, "stage 1 answers with the first listed entry of the pack directory that has the extension; stage 2 with <parent>/<pack name><ext> only if it exists; images inside the pack "
           "directory are considered before images beside it; no extension is skipped", decs, [M1, EX], spec, equiv={f"extensions.match({item}, {t1}) is None": (M1, False)},
           why="the answer must be an existing path; extension priority first, then listing order")
