"""
R-IDENT: ``is`` / ``is not`` only against None / True / False, a ``type(...)``
result, a class, an enum member or an ``object()`` sentinel.  Identity between
two *values* (strings in particular) depends on CPython interning.
"""
from __future__ import annotations

import ast
from typing import Iterable, Optional

from ..engine import ClassInfo, EnumVal, External, FunctionInfo, NotConst, body_walk, src
from ..report import Ctx


def _singleton(ctx: Ctx, fi: FunctionInfo, e: ast.expr) -> Optional[str]:
    if isinstance(e, ast.Constant) and (e.value is None or e.value is True or e.value is False or e.value is Ellipsis):
        return "constant singleton"
    if isinstance(e, ast.Call) and isinstance(e.func, ast.Name) and e.func.id == "type" and len(e.args) == 1:
        return "type(...)"
    if isinstance(e, ast.Name) and fi.cls is not None and fi.param_names() and e.id == fi.param_names()[0] and "staticmethod" not in fi.decorators():
        return "the instance itself (an object of the class, not a value)"
    if isinstance(e, ast.Name) and e.id == "__EXHAUSTED__":
        return "sentinel"
    if isinstance(e, (ast.Name, ast.Attribute)):
        if isinstance(e, ast.Attribute) and e.attr == "__class__":
            return "class"
        # a local shadows module-level names
        if isinstance(e, ast.Name):
            from ..flow import locals_of
            f = fi
            while f is not None:
                if e.id in locals_of(f).b:
                    return None
                f = f.parent
        r = ctx.p.resolve_expr(fi.module, e)
        if isinstance(r, ClassInfo):
            return "class"
        if isinstance(r, External) and r.name.startswith("builtins.") and isinstance(getattr(__import__("builtins"), r.name.split(".", 1)[1], None), type):
            return "class"
        if isinstance(r, tuple) and r[0] == "classattr":
            try:
                v = ctx.p.class_attr_value(r[1], r[2])
            except NotConst:
                v = None
            if isinstance(v, EnumVal):
                return "enum member"
        if isinstance(r, tuple) and r[0] == "const":
            val = r[2].value
            if isinstance(val, ast.Call) and isinstance(val.func, ast.Name) and val.func.id == "object" and not val.args:
                return "sentinel"
    return None


def ident_rule(ctx: Ctx, modules: Iterable[str], floor: int) -> None:
    n = 0
    for f in ctx.p.nontest_functions():
        if f.module.name not in modules:
            continue
        k = 0
        for node in body_walk(f.node):
            if isinstance(node, ast.Compare):
                operands = [node.left] + list(node.comparators)
                for i, op in enumerate(node.ops):
                    if isinstance(op, (ast.Is, ast.IsNot)):
                        n += 1
                        k += 1
                        a, b = operands[i], operands[i + 1]
                        why = _singleton(ctx, f, a) or _singleton(ctx, f, b)
                        ctx.expect("R-IDENT", f, f"identity test #{k}: {src(a, 30)} {'is' if isinstance(op, ast.Is) else 'is not'} {src(b, 30)}",
                                   why is not None, why or "",
                                   f"'{src(node)}' compares two values by identity: whether equal strings are the same object depends on "
                                   f"CPython interning, so the outcome depends on the value", node=node)
    ctx.floor("identity comparisons examined", n, floor)
