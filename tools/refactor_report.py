#!/venv/bin/python
"""Run every property check against every stored behaviour-preserving refactoring (refactors/*/patch.diff).
Anything that fires is a false alarm (exit 1) or an unrecognised shape (exit 2)."""
import glob, os, shutil, subprocess, sys, tempfile
sys.path.insert(0, os.path.dirname(os.path.dirname(os.path.abspath(__file__))))
from concurrent.futures import ProcessPoolExecutor
from sfa.__main__ import run_check, PROPS

def one(d):
    name = os.path.basename(d.rstrip("/"))
    tmp = tempfile.mkdtemp(prefix="sfa-ref-")
    try:
        shutil.copytree("/repo/simfile", os.path.join(tmp, "simfile"), ignore=shutil.ignore_patterns("__pycache__"))
        r = subprocess.run(["git", "apply", "--unsafe-paths", "--directory", tmp, os.path.abspath(os.path.join(d, "patch.diff"))], capture_output=True, text=True, cwd="/")
        if r.returncode != 0:
            return name, None
        fired = {}
        for p in PROPS:
            code, ctx, viol, known, err = run_check(p, "quick", repo=tmp, quiet=True, write=False)
            if code != 0:
                fired[p] = (code, [f"{i.clause} {i.func} [{i.construct[:70]}]" for i in viol][:8], (err or "")[:160])
        return name, fired
    finally:
        shutil.rmtree(tmp, ignore_errors=True)

if __name__ == "__main__":
    only = sys.argv[1] if len(sys.argv) > 1 else ""
    ds = [d for d in sorted(glob.glob(os.path.join(os.path.dirname(os.path.dirname(os.path.abspath(__file__))), "refactors", "*/"))) if only in d]
    n1 = n2 = ok = 0
    with ProcessPoolExecutor(16) as ex:
        for name, fired in ex.map(one, ds):
            if fired is None:
                print(name, "PATCH DOES NOT APPLY"); continue
            if not fired:
                ok += 1; continue
            if any(c == 1 for c, _, _ in fired.values()): n1 += 1
            else: n2 += 1
            for p, (c, v, e) in fired.items():
                print(f"{name} {p} exit={c}" + (f" ERR {e}" if c == 2 else ""))
                for x in v: print("      ", x)
    print(f"refactorings: {len(ds)}  silent: {ok}  false alarm (exit 1): {n1}  unrecognised only (exit 2): {n2}")
