#!/venv/bin/python
"""
Evaluate a seeded change: copy /repo to a scratch directory, apply the patch there, run every
property's quick check against the copy (nothing is written to /verif/evidence), optionally run
the demo and the test suite, print which checks fire, and remove the copy.

  tools/eval_seed.py <patch.diff> [--demo demo.py] [--tests] [--props C01,C03]
"""
import argparse, json, os, shutil, subprocess, sys, tempfile
sys.path.insert(0, os.path.dirname(os.path.dirname(os.path.abspath(__file__))))
FLAKY = "simfile/tests/test_assets.py::TestAssets::test_predefined_assets"

def main():
    ap = argparse.ArgumentParser()
    ap.add_argument("patch")
    ap.add_argument("--demo")
    ap.add_argument("--tests", action="store_true")
    ap.add_argument("--props", default=None)
    ap.add_argument("--json", action="store_true")
    a = ap.parse_args()
    from sfa.__main__ import run_check, PROPS
    tmp = tempfile.mkdtemp(prefix="sfa-seed-")
    out = {"patch": a.patch}
    try:
        for name in ("simfile", "testdata"):
            shutil.copytree(os.path.join("/repo", name), os.path.join(tmp, name), ignore=shutil.ignore_patterns("__pycache__"))
        if a.demo:
            r = subprocess.run(["/venv/bin/python", os.path.abspath(a.demo)], cwd=tmp, capture_output=True, text=True)
            out["demo_clean"] = (r.returncode, (r.stdout + r.stderr).strip().splitlines()[-1:] )
        r = subprocess.run(["git", "apply", "--unsafe-paths", "--directory", tmp, os.path.abspath(a.patch)], capture_output=True, text=True, cwd="/")
        if r.returncode != 0:
            r = subprocess.run(["patch", "-p1", "-d", tmp, "-i", os.path.abspath(a.patch)], capture_output=True, text=True)
        out["applied"] = r.returncode == 0
        if r.returncode != 0:
            out["apply_error"] = (r.stdout + r.stderr)[-400:]
        else:
            if a.demo:
                r = subprocess.run(["/venv/bin/python", os.path.abspath(a.demo)], cwd=tmp, capture_output=True, text=True)
                out["demo_patched"] = (r.returncode, (r.stdout + r.stderr).strip().splitlines()[-1:])
            if a.tests:
                r = subprocess.run(["/venv/bin/python", "-m", "pytest", "-q", "-p", "no:cacheprovider", "--deselect", FLAKY], cwd=tmp, capture_output=True, text=True)
                out["tests_pass"] = r.returncode == 0
                out["tests_tail"] = r.stdout.strip().splitlines()[-1:]
            props = a.props.split(",") if a.props else PROPS
            fired = {}
            for p in props:
                code, ctx, violations, known, err = run_check(p, "quick", repo=tmp, quiet=True, write=False)
                if code != 0:
                    fired[p] = {"exit": code, "violations": [f"{i.rule} {i.clause} {i.module}:{i.func} [{i.construct}] {i.detail[:140]}" for i in violations][:5], "error": err}
            out["fired"] = fired
    finally:
        shutil.rmtree(tmp, ignore_errors=True)
    if a.json:
        print(json.dumps(out, indent=1))
    else:
        print(f"patch {a.patch}: applied={out.get('applied')} demo_clean={out.get('demo_clean')} demo_patched={out.get('demo_patched')} tests_pass={out.get('tests_pass')} {out.get('tests_tail','')}")
        for p, r in out.get("fired", {}).items():
            print(f"  {p} exit={r['exit']}" + (f" ERROR {r['error']}" if r["error"] else ""))
            for v in r["violations"]:
                print("     ", v)
        if out.get("applied") and not out.get("fired"):
            print("  NO CHECK FIRED")
    return 0

if __name__ == "__main__":
    sys.exit(main())
