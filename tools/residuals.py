#!/venv/bin/python
"""Development aid: list every non-test function of a tree whose normalised body still holds constructs the rules cannot see through.
   tools/residuals.py [repo root | stored patch name]"""
import os, subprocess, sys
sys.path.insert(0, os.path.dirname(os.path.dirname(os.path.abspath(__file__))))
from sfa.engine import Program
from sfa.opaque import residuals
root = sys.argv[1] if len(sys.argv) > 1 else "/repo"
if not os.path.isdir(root):
    root = subprocess.run([os.path.join(os.path.dirname(os.path.abspath(__file__)), "mk_scratch.sh"), root], capture_output=True, text=True).stdout.strip()
p = Program(root)
n = 0
for fi in p.nontest_functions():
    if fi.parent is not None:
        continue
    r = residuals(p, fi)
    if r:
        n += 1
        print(fi.fq)
        for x in r:
            print("    ", x)
print(f"{n} function(s) with residuals")
