#!/venv/bin/python
"""Development aid: print a function of a tree as the rules see it (after the load-time normal form), optionally with its path effects.
   tools/dump_fn.py <repo root | stored patch name> <module:qualname> [--paths]"""
import ast, os, subprocess, sys
sys.path.insert(0, os.path.dirname(os.path.dirname(os.path.abspath(__file__))))
from sfa.engine import Program
from sfa import peff

def main():
    root, fq = sys.argv[1], sys.argv[2]
    if not os.path.isdir(root):
        root = subprocess.run([os.path.join(os.path.dirname(os.path.abspath(__file__)), "mk_scratch.sh"), root], capture_output=True, text=True).stdout.strip()
    p = Program(root)
    fi = p.func(fq)
    print(ast.unparse(fi.node))
    if "--paths" in sys.argv:
        for i, s in enumerate(peff.Summariser(fi.node).paths()):
            print(f"--- path {i} end={s.end}")
            for k, v in s.assign.items():
                print(f"    [{'T' if v else 'F'}] {k}")
            for e in s.effects:
                print(f"    {e.kind:7s} {e.text}")

main()
