#!/bin/sh
# usage: tools/mk_scratch.sh <patch-dir-name under refactors|seeded>  -> prints scratch dir with the patch applied
set -e
name=$1
for base in /verif/refactors /verif/seeded; do [ -f $base/$name/patch.diff ] && p=$base/$name/patch.diff; done
d=/tmp/sc-$name
rm -rf $d; mkdir -p $d
cp -r /repo/simfile $d/simfile
find $d -name __pycache__ -prune -exec rm -rf {} +
(cd / && git apply --unsafe-paths --directory $d $p)
echo $d
