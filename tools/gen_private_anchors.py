#!/venv/bin/python
"""Write sfa/private_anchors.json: where each private anchored definition lives on the confirmed tree (module, class, number of parameters).
Run once against the confirmed /repo; read (never written) at check time by the renamed-anchor normal form."""
import ast, json, os, sys
sys.path.insert(0, os.path.dirname(os.path.dirname(os.path.abspath(__file__))))
from sfa.normalize import anchors
root = "/repo"
out = {}
for dp, dn, fn in os.walk(os.path.join(root, "simfile")):
    if "tests" in dp.split(os.sep):
        continue
    for f in fn:
        if not f.endswith(".py"):
            continue
        path = os.path.join(dp, f)
        mod = os.path.relpath(path, root)[:-3].replace(os.sep, ".")
        if mod.endswith(".__init__"):
            mod = mod[:-9]
        tree = ast.parse(open(path).read())
        for st in tree.body:
            if isinstance(st, ast.FunctionDef) and st.name in anchors() and st.name.startswith("_") and not st.name.startswith("__"):
                out.setdefault(st.name, []).append({"module": mod, "class": None, "nparams": len(st.args.posonlyargs + st.args.args + st.args.kwonlyargs)})
            if isinstance(st, ast.ClassDef):
                for m in st.body:
                    if isinstance(m, ast.FunctionDef) and m.name in anchors() and m.name.startswith("_") and not m.name.startswith("__"):
                        out.setdefault(m.name, []).append({"module": mod, "class": st.name, "nparams": len(m.args.posonlyargs + m.args.args + m.args.kwonlyargs)})
json.dump(out, open(os.path.join(os.path.dirname(os.path.dirname(os.path.abspath(__file__))), "sfa", "private_anchors.json"), "w"), indent=1, sort_keys=True)
print(len(out), "private anchors")
