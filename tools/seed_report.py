#!/venv/bin/python
"""Run every property check against every stored seeded (property-breaking) change and report which properties fire.
   tools/seed_report.py [filter] [--update]   (--update rewrites caught_by / caught_by_own_property in meta.json)"""
import glob, json, os, shutil, subprocess, sys, tempfile
sys.path.insert(0, os.path.dirname(os.path.dirname(os.path.abspath(__file__))))
from concurrent.futures import ProcessPoolExecutor
from sfa.__main__ import run_check, PROPS

OWN = "--own" in sys.argv

def one(d):
    name = os.path.basename(d.rstrip("/"))
    tmp = tempfile.mkdtemp(prefix="sfa-seed-")
    try:
        shutil.copytree("/repo/simfile", os.path.join(tmp, "simfile"), ignore=shutil.ignore_patterns("__pycache__"))
        r = subprocess.run(["git", "apply", "--unsafe-paths", "--directory", tmp, os.path.abspath(os.path.join(d, "patch.diff"))], capture_output=True, text=True, cwd="/")
        if r.returncode != 0:
            return name, None
        fired = {}
        for p in ([name.split("-")[0]] if OWN else PROPS):
            code, ctx, viol, known, err = run_check(p, "quick", repo=tmp, quiet=True, write=False)
            if code != 0:
                fired[p] = (code, [f"{i.rule} {i.func} [{i.construct}]" for i in viol][:6], (err or "")[:200])
        return name, fired
    finally:
        shutil.rmtree(tmp, ignore_errors=True)

if __name__ == "__main__":
    args = [a for a in sys.argv[1:] if not a.startswith("--")]
    only = args[0] if args else ""
    update = "--update" in sys.argv
    root = os.path.dirname(os.path.dirname(os.path.abspath(__file__)))
    ds = [d for d in sorted(glob.glob(os.path.join(root, "seeded", "*/"))) if only in d]
    own_ok = 0
    with ProcessPoolExecutor(16) as ex:
        for (name, fired), d in zip(ex.map(one, ds), ds):
            if fired is None:
                print(name, "PATCH DOES NOT APPLY"); continue
            prop = name.split("-")[0]
            v = sorted(p for p, (c, _, _) in fired.items() if c == 1)
            e = sorted(p for p, (c, _, _) in fired.items() if c == 2)
            own = prop in v
            own_ok += own
            print(f"{name:14s} own={'yes' if own else 'NO ':3s} violations={v} analysis_errors={e}")
            if not own and prop in e:
                print("       ", fired[prop][2])
            if update and not OWN:
                mp = os.path.join(d, "meta.json")
                meta = json.load(open(mp))
                meta["caught_by"] = {p: x[1] for p, x in fired.items() if x[0] == 1}
                meta["analysis_errors"] = {p: x[2] for p, x in fired.items() if x[0] == 2}
                meta["caught_by_own_property"] = own
                json.dump(meta, open(mp, "w"), indent=1)
    print(f"seeds: {len(ds)}  caught by own property: {own_ok}")
