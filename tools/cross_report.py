#!/venv/bin/python
"""For every breaking self-test variant run ALL property checks and report which properties fire beyond the expected ones."""
import os, sys, shutil, tempfile
sys.path.insert(0, os.path.dirname(os.path.dirname(os.path.abspath(__file__))))
from concurrent.futures import ProcessPoolExecutor
from sfa.selftest.variants import VARIANTS
from sfa.selftest.runner import _apply
from sfa.__main__ import run_check, PROPS

def one(v):
    tmp = tempfile.mkdtemp(prefix="sfa-cross-")
    try:
        shutil.copytree("/repo/simfile", os.path.join(tmp, "simfile"), ignore=shutil.ignore_patterns("__pycache__"))
        if _apply(tmp, v["edits"]):
            return v["id"], None
        fired = {}
        for p in PROPS:
            code, ctx, viol, known, err = run_check(p, "quick", repo=tmp, quiet=True, write=False)
            if code != 0:
                fired[p] = (code, [f"{i.clause} {i.func} [{i.construct[:60]}]" for i in viol][:2])
        return v["id"], fired
    finally:
        shutil.rmtree(tmp, ignore_errors=True)

if __name__ == "__main__":
    vs = [v for v in VARIANTS if v["kind"] == "break"]
    with ProcessPoolExecutor(16) as ex:
        for (vid, fired), v in zip(ex.map(one, vs), vs):
            if fired is None:
                continue
            extra = {p: r for p, r in fired.items() if p not in v["props"]}
            if extra:
                print(vid, "expected", v["props"], "extra:", {p: r for p, r in extra.items()})
