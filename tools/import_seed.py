#!/venv/bin/python
"""Confirm a sub-agent's seeded change and file it under /verif/seeded/<name>/ with what was run and what caught it.
   tools/import_seed.py <dir with patch.diff demo.py meta.json> <name>"""
import json, os, shutil, subprocess, sys
src, name = sys.argv[1], sys.argv[2]
here = os.path.dirname(os.path.dirname(os.path.abspath(__file__)))
r = subprocess.run(["/venv/bin/python", os.path.join(here, "tools/eval_seed.py"), os.path.join(src, "patch.diff"), "--demo", os.path.join(src, "demo.py"), "--tests", "--json"], capture_output=True, text=True, cwd=here)
res = json.loads(r.stdout[r.stdout.index("{"):])
ok = res.get("applied") and res.get("tests_pass") and res.get("demo_clean", [1])[0] == 0 and res.get("demo_patched", [0])[0] != 0
print(name, "confirmed" if ok else "NOT CONFIRMED", {k: res.get(k) for k in ("applied", "tests_pass", "demo_clean", "demo_patched")})
if not ok:
    sys.exit(1)
dst = os.path.join(here, "seeded", name)
os.makedirs(dst, exist_ok=True)
for f in ("patch.diff", "demo.py"):
    if os.path.abspath(os.path.join(src, f)) != os.path.abspath(os.path.join(dst, f)):
        shutil.copy(os.path.join(src, f), os.path.join(dst, f))
meta = json.load(open(os.path.join(src, "meta.json")))
prop = meta.get("property")
meta["what_was_run"] = [
    "scratch copy of /repo (simfile/, testdata/) with the patch applied via git apply",
    "demo.py on the clean copy: exit 0 (PASS); on the patched copy: exit 1 (FAIL)",
    "pytest -q -p no:cacheprovider --deselect " + "simfile/tests/test_assets.py::TestAssets::test_predefined_assets" + " on the patched copy: " + " ".join(res.get("tests_tail", [])),
    "every property's quick check against the patched copy (tools/eval_seed.py)",
]
meta["caught_by"] = {p: v["violations"] for p, v in res.get("fired", {}).items() if v["exit"] == 1}
meta["analysis_errors"] = {p: v["error"] for p, v in res.get("fired", {}).items() if v["exit"] == 2}
meta["caught_by_own_property"] = prop in meta["caught_by"]
json.dump(meta, open(os.path.join(dst, "meta.json"), "w"), indent=1)
print("   caught by:", sorted(meta["caught_by"]), "| own property:", meta["caught_by_own_property"], "| analysis errors:", sorted(meta["analysis_errors"]))
