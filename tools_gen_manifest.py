"""Regenerates MANIFEST.json from the property modules (run by hand after adding clauses)."""
import importlib, json
TECH = {
 "C01": "path-effect summaries (symbolic environment per abstract path) compared with decision tables for the item-loop writer, the SM readers and the constructor; writer/reader table agreement by constant evaluation; nullable dataflow; census of writer/reader overrides in the class hierarchy",
 "C02": "path-effect decision tables for SSCChart.serialize (notes item by key, NOTEDATA first, notes last), SSCSimfile._parse (chart opening/closing) and SSCChart._parse; identity-comparison lint; detection fallback conjunct rule; census of overrides",
 "C03": "option forwarding and who-may-call over the resolved call graph; key-normalisation taint; stream typestate by path enumeration; path-effect decision tables for suffix dispatch, class choice, constructor funnel and the readers; module-state rule (no table changed at run time)",
 "C04": "path-effect decision tables of every writer and reader (what is stored must be what is written and nothing else), nullable dataflow over every serializer, key-normalisation taint, census of overrides",
 "C05": "def-use chain of the encoding, handler-shape rule, path enumeration with predicate atoms, write-effect census over the call graph",
 "C06": "handler discipline on the exceptional CFG, dominance of serialization/encode over write-mode opens, write-effect census",
 "C07": "class-table/MRO rule on rich comparisons, polynomial normal form of the beat expression, def-use binding of enumerate indices",
 "C08": "must-pass-through by path enumeration (loops 0/>=1, constant propagation, library facts), polynomial checks of ranges and row keys, delimiter agreement",
 "C09": "private closures inlined at load time; path-effect decision table of the head/tail joiner (16 guard atoms, occurrence-aware for mutated objects), of the same-beat modes and of the counters; closed-form shapes of the counting functions; enum-dispatch totality; option forwarding",
 "C10": "path-effect decision table of ungroup_notes per element (orphan check inlined) and of the joiner; record-rebuild field completeness; drain/release loop order on the CFG; enum-dispatch totality; rich-comparison completeness",
 "C11": "path-effect decision tables for warp coalescing (with loop-carried-cache equivalence), time_until (units-of-measure on closed forms) and advance; list-builder view of the event pairing; bisect search-order = build-order rule with exact projection and unchanged key; module-state / cache-key completeness rule",
 "C12": "bisect search-order = build-order rule (known finding), units-of-measure checker",
 "C13": "path-effect decision table of time_notes per note; record-rebuild field completeness; enum-dispatch totality; guard table of hittable; module-state rule (identity-keyed caches); warp-union table",
 "C14": "operator-override completeness against the running fractions.Fraction, guard atoms of Beat.__new__, constant arithmetic obligation on the format precision, delimiter agreement",
 "C15": "descriptor-table agreement, guard-atom extraction of timing_source, single-source def-use rule, dispatch outcome table of displaybpm",
 "C16": "descriptor-table alias agreement, purity/freshness def-use rule, dominance of the warp check, table agreement",
 "C17": "may-raise set over the resolved call tree plus raising summary of SMChart.__setitem__, table completeness against descriptor tables and blank templates, enum-dispatch outcome table",
 "C18": "pattern rules on the descriptor accessors, declaration table checks, class-table override rule, equality shape",
 "C19": "option/kwargs forwarding over the call graph, dispatch-literal/table agreement, sibling-branch clone comparison, dominance and call-graph recursion check",
 "C20": "provenance rule on values reaching the cache, cache must-pass-through, symmetric-normaliser rule, regex-AST normalisation of presets against the documented table",
}
checks = []
for i in range(1, 21):
    pid = f"C{i:02d}"
    m = importlib.import_module(f"sfa.props.{pid.lower()}")
    not_decided = m.EXPLANATION.split(". ")[-1] if " NOT " in m.EXPLANATION.split(". ")[-1] else ""
    checks.append({
        "property_id": pid,
        "quick_cmd": f"/venv/bin/python -m sfa check {pid} --tier quick",
        "thorough_cmd": f"/venv/bin/python -m sfa check {pid} --tier thorough",
        "evidence_file": f"/verif/evidence/{pid}.json",
        "replay_cmd_template": "/venv/bin/python -m sfa explain {path}",
        "engine": "sfa",
        "level_claimed": {
            "category": "other",
            "text": "Static rule checking of necessary structural conditions (not a proof of the behavioural statement): " + m.EXPLANATION,
            "design_ref": f"DESIGN.md section 3, {pid}",
        },
        "level_note": "Trusted base: CPython's ast module and the engine in /verif/sfa (resolver, CFG, dominators, constant evaluator). Assumes: " + "; ".join(m.ASSUMPTIONS)
                      + ". Decides the listed structural clauses on every path of the anchored functions; the value-level behaviour is not decided.",
        "technique": "static analysis: " + TECH[pid],
    })
manifest = {
    "version": 1,
    "setup_cmd": "/venv/bin/python -m sfa doctor",
    "hooks": {
        "guard": "SIMFILE_VERIF",
        "enable": "none needed: the checks only read /repo's sources (nothing in /repo is instrumented)",
        "baseline_off_cmd": "cd /repo && /venv/bin/python -m pytest -ra -q -p no:cacheprovider --timeout=900 --continue-on-collection-errors",
        "source_commits": [],
        "add_only": True,
    },
    "engines": [{"name": "sfa", "path": "/verif/sfa", "serves_properties": [c["property_id"] for c in checks],
                 "kind_free_text": "repository-specific static analyser on stdlib ast: load-time normal form (helper inlining, constants, higher-order spellings, objects to closures), resolver + class table/MRO + constant evaluator, statement CFG with dominators, path-effect summariser (symbolic environment, lowering of reductions/conditionals), decision-table comparison, opacity gate for unresolved private code, rule families (DESIGN.md sections 2, 12 and 13)"}],
    "checks": checks,
    "notes": "Every check is static analysis of /repo's current working tree; exit 0 holds, exit 1 + VIOLATION line, exit 2 ANALYSIS-ERROR (unrecognised shape / vanished anchor / a mismatch on a function that still holds package-private code the engine did not see through - the opacity gate of DESIGN.md section 13 -, never a VIOLATION). "
             "Known findings are listed in /verif/known_findings.json (C12 bisect order, C16 FREEZES alias, C17 MUSIC and NOTES2 KeyError).",
    "not_applicable": [],
}
json.dump(manifest, open("MANIFEST.json", "w"), indent=1)
print("wrote MANIFEST.json with", len(checks), "checks")
